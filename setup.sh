#!/bin/sh
# Offline setup: warm the Go build cache for the harness (go1.26.8, module cache only).
set -e
cd "$(dirname "$0")/harness"
export GOFLAGS=-mod=mod GOPROXY=off GOSUMDB=off GOTOOLCHAIN=local
go1.26.8 build -tags verif ./...
go1.26.8 vet -tags verif ./... >/dev/null 2>&1 || true
for d in c*/; do go1.26.8 test -tags verif -c -o /dev/null ./$d >/dev/null 2>&1 || true; done
echo setup done

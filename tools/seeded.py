#!/usr/bin/env python3
"""Import a seeded change produced by a sub-agent from its scratch worktree, confirm it, and run our checks on it.

usage: tools/seeded.py <seed-id> <worktree> <property> [<property> ...]
"""
import json, os, re, subprocess, sys, shutil, time

VERIF = os.path.dirname(os.path.dirname(os.path.abspath(__file__)))

def sh(cmd, cwd=None, timeout=1800):
    p = subprocess.run(cmd, shell=True, cwd=cwd, stdout=subprocess.PIPE, stderr=subprocess.STDOUT, text=True, timeout=timeout)
    return p.returncode, p.stdout

def main():
    sid, wt, props = sys.argv[1], sys.argv[2], sys.argv[3:]
    out = os.path.join(VERIF, "seeded", sid)
    os.makedirs(out, exist_ok=True)
    rc, files = sh("git status --porcelain", cwd=wt)
    demos = [l[3:].strip() for l in files.splitlines() if l.startswith("??") and "zz_seeded" in l]
    changed = [l[3:].strip() for l in files.splitlines() if l[:2].strip() == "M"]
    rc, patch = sh("git diff -- " + " ".join(changed), cwd=wt)
    open(os.path.join(out, "patch.diff"), "w").write(patch)
    for d in demos:
        dst = os.path.join(out, "demo", d)
        os.makedirs(os.path.dirname(dst), exist_ok=True)
        shutil.copyfile(os.path.join(wt, d), dst)
    pkgs = sorted({"./" + os.path.dirname(d) for d in demos})
    run_demo = "go test -count=1 -run 'Seeded' " + " ".join(pkgs)
    meta = {"id": sid, "breaks": props, "changed_files": changed, "demo_files": demos, "demo_cmd": run_demo}
    # 1. demo fails with the change
    rc1, o1 = sh(run_demo, cwd=wt)
    # 2. demo passes without it
    # NOTE: never git stash here - refs/stash is shared by all worktrees of the repository
    sh("git checkout -- " + " ".join(changed), cwd=wt)
    rc2, o2 = sh(run_demo, cwd=wt)
    sh("git apply " + os.path.join(out, "patch.diff"), cwd=wt)
    meta["demo_with_change"] = "FAIL" if rc1 != 0 else "PASS"
    meta["demo_without_change"] = "FAIL" if rc2 != 0 else "PASS"
    # 3. build + existing tests of touched packages and their dependants (demo skipped)
    rc3, o3 = sh("go build ./... && go vet " + " ".join(sorted({"./" + os.path.dirname(c) for c in changed})), cwd=wt)
    tpk = sorted({"./" + os.path.dirname(c) + "/..." for c in changed} | set(pkgs))
    rc4, o4 = sh("go test -count=1 -skip 'Seeded' " + " ".join(tpk), cwd=wt)
    meta["builds"] = rc3 == 0
    meta["existing_tests_touched_packages"] = "PASS" if rc4 == 0 else "FAIL: " + o4[-600:]
    # 4. our checks
    rc, st = sh("git -C /repo status --porcelain")
    if st.strip():
        print("refusing: /repo dirty"); return 2
    res = {}
    # EVIDENCE-BACKUP: runs on a changed tree must not leave their evidence files behind
    evdir = os.path.join(VERIF, "evidence")
    evbak = os.path.join(VERIF, ".work", "evidence-backup-%d" % os.getpid())
    shutil.rmtree(evbak, ignore_errors=True)
    shutil.copytree(evdir, evbak)
    import atexit
    atexit.register(lambda: (shutil.rmtree(evdir, ignore_errors=True), shutil.copytree(evbak, evdir), shutil.rmtree(evbak, ignore_errors=True)))
    try:
        rc, o = sh("git -C /repo apply " + os.path.join(out, "patch.diff"))
        if rc != 0:
            print("patch does not apply to /repo:", o); return 2
        for p in props:
            for tier in ("quick", "thorough"):
                t0 = time.time()
                rc, o = sh("./check %s --tier %s" % (p, tier), cwd=VERIF, timeout=3600)
                viol = [l for l in o.splitlines() if l.startswith("VIOLATION")]
                fail = [l for l in o.splitlines() if l.startswith("failure:")]
                res["%s/%s" % (p, tier)] = {"detected": bool(viol) and rc == 1, "exit": rc, "wall_s": round(time.time() - t0, 1),
                                            "failure": (fail[0][:400] if fail else "")}
                print(sid, p, tier, "DETECTED" if (viol and rc == 1) else "MISSED exit=%d" % rc, fail[0][:200] if fail else "")
                if viol and rc == 1:
                    break
    finally:
        sh("git -C /repo checkout -- .")
    meta["our_checks"] = res
    json.dump(meta, open(os.path.join(out, "meta.json"), "w"), indent=1)
    print(json.dumps({k: meta[k] for k in ("demo_with_change", "demo_without_change", "builds", "existing_tests_touched_packages")}))
    return 0

if __name__ == "__main__":
    sys.exit(main())

#!/bin/sh
# Flakiness sweep: every quick check at several VERIF_SEED values on the unchanged tree; prints anything that is not OK.
# usage: tools/sweep.sh <first-seed> <last-seed> [ids...]
cd "$(dirname "$0")/.."
a=$1; b=$2; shift 2
ids="$*"
[ -z "$ids" ] && ids="C01 C02 C03 C04 C05 C06 C07 C08 C09 C10 C11 C12 C13 C14 C15 C16 C17 C18 C19 C20"
bad=0
for s in $(seq $a $b); do
  for id in $ids; do
    out=$(VERIF_SEED=$s ./check $id --tier quick 2>&1); rc=$?
    if [ $rc -ne 0 ] || echo "$out" | grep -q VIOLATION; then
      bad=$((bad+1)); echo "NOT-OK seed=$s id=$id rc=$rc"; echo "$out" | grep -v KNOWN-FINDING | tail -4 | cut -c1-600
    fi
  done
  echo "seed $s done (bad so far: $bad)"
done
echo "sweep finished: $bad not-ok"

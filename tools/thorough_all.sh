#!/bin/sh
# Runs the thorough tier of every property in turn; prints one line per property.
cd "$(dirname "$0")/.."
ids="$*"
[ -z "$ids" ] && ids="C01 C02 C03 C04 C05 C06 C07 C08 C09 C10 C11 C12 C13 C14 C15 C16 C17 C18 C19 C20"
for id in $ids; do
  t0=$(date +%s)
  out=$(./check $id --tier thorough 2>&1); rc=$?
  echo "$id rc=$rc $(($(date +%s)-t0))s $(echo "$out" | grep -v KNOWN-FINDING | tail -1 | cut -c1-300)"
  if [ $rc -ne 0 ]; then echo "$out" | grep -v KNOWN-FINDING | tail -8 | cut -c1-800; fi
done
echo "thorough finished"

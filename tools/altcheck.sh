#!/bin/bash
# Pre-screen: run a property's quick generation against another checkout of the runtime (e.g. a seeded worktree)
# without touching /repo.  usage: tools/altcheck.sh <Cxx> <runtime-dir> [go test args...]
set -u
id=$1; dir=$2; shift 2
pkg=$(python3 -c "import json,sys; print(json.load(open('/verif/checks.json'))['$id']['pkg'])" 2>/dev/null || echo "")
[ -z "$pkg" ] && pkg=$(echo "$id" | tr A-Z a-z)
mkdir -p /verif/.work/alt
sed "s#=> /repo#=> $dir#" /verif/harness/go.mod > /verif/.work/alt/$id.mod
cp /verif/harness/go.sum /verif/.work/alt/$id.sum
export GOFLAGS=-mod=mod GOPROXY=off GOSUMDB=off GOTOOLCHAIN=local
cd /verif/harness
VERIF_TIER=${VERIF_TIER:-quick} VERIF_SEED=${VERIF_SEED:-1} VERIF_OUT=/verif/.work/alt/out-$id \
  go1.26.8 test -modfile=/verif/.work/alt/$id.mod -tags verif -count=1 -timeout 20m ./$pkg/ -run '^Test' "$@" 2>&1 | grep -v "\[rapid\] draw" | tail -${ALT_TAIL:-25} | cut -c1-700
rm -rf /verif/.work/alt/out-$id

#!/usr/bin/env python3
"""Generate MANIFEST.json from checks.json (single source of per-property metadata)."""
import json, os
V = os.path.dirname(os.path.dirname(os.path.abspath(__file__)))
cfg = json.load(open(os.path.join(V, "checks.json")))
props = [json.loads(l) for l in open(os.path.join(V, "properties.jsonl"))]
na = json.load(open(os.path.join(V, "not_applicable.json"))) if os.path.exists(os.path.join(V, "not_applicable.json")) else {}
checks = []
for p in props:
    pid = p["id"]
    c = cfg.get(pid)
    if not c or c.get("disabled"):
        continue
    checks.append({
        "property_id": pid,
        "quick_cmd": "./check %s --tier quick" % pid,
        "thorough_cmd": "./check %s --tier thorough" % pid,
        "evidence_file": "evidence/%s.json" % pid,
        "replay_cmd_template": "./check %s --replay {path}" % pid,
        "engine": c.get("engine", "harness"),
        "level_claimed": {"category": c.get("level", "exploration"), "text": c.get("level_text", ""), "design_ref": "DESIGN.md section " + c.get("design_ref", "3")},
        "level_note": c.get("level_note", "; ".join(c.get("assumptions", []))),
        "technique": c.get("technique", ""),
    })
claimed = {c["property_id"] for c in checks}
not_app = [{"property_id": p["id"], "reason": na.get(p["id"], "check not built yet in this session; see DESIGN.md")} for p in props if p["id"] not in claimed]
hooks = json.load(open(os.path.join(V, "hooks.json")))
man = {
    "version": 1,
    "setup_cmd": "./setup.sh",
    "hooks": hooks,
    "engines": [{"name": "harness", "path": "harness", "serves_properties": sorted(claimed),
                 "kind_free_text": "Go module: rapid-drawn plain-data plans, reference models, gate scheduler / synctest virtual-time world, porcupine history checking, native go fuzz targets; python3 driver ./check"}],
    "checks": checks,
    "not_applicable": not_app,
    "notes": "Every check is ./check <id> --tier quick|thorough; VERIF_SEED selects the rapid seed. Evidence is rewritten by every run.",
}
json.dump(man, open(os.path.join(V, "MANIFEST.json"), "w"), indent=1)
print("claimed:", sorted(claimed))

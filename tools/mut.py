#!/usr/bin/env python3
"""Sensitivity runs: apply each deliberate mutation to /repo's working tree, run the quick check of the
properties it targets, revert. Results are appended to mutations/results.json.

usage: tools/mut.py [--only REGEX] [--tier quick] [--seed N]
"""
import argparse, json, os, re, subprocess, sys, time

VERIF = os.path.dirname(os.path.dirname(os.path.abspath(__file__)))
REPO = "/repo"

def sh(cmd, **kw):
    return subprocess.run(cmd, shell=True, stdout=subprocess.PIPE, stderr=subprocess.STDOUT, text=True, **kw)

def main():
    ap = argparse.ArgumentParser()
    ap.add_argument("--only", default=".")
    ap.add_argument("--tier", default="quick")
    ap.add_argument("--seed", default="1")
    ap.add_argument("--file", default=os.path.join(VERIF, "mutations", "mutations.json"))
    a = ap.parse_args()
    muts = json.load(open(a.file))
    respath = os.path.join(VERIF, "mutations", "results.json")
    results = json.load(open(respath)) if os.path.exists(respath) else {}
    if sh("git -C %s status --porcelain" % REPO).stdout.strip():
        print("refusing: /repo working tree is dirty"); return 2
    # EVIDENCE-BACKUP: runs on a mutated tree must not leave their evidence files behind
    import shutil, tempfile
    evdir = os.path.join(VERIF, "evidence")
    evbak = os.path.join(VERIF, ".work", "evidence-backup-%d" % os.getpid())
    shutil.rmtree(evbak, ignore_errors=True)
    shutil.copytree(evdir, evbak)
    import atexit
    atexit.register(lambda: (shutil.rmtree(evdir, ignore_errors=True), shutil.copytree(evbak, evdir), shutil.rmtree(evbak, ignore_errors=True)))
    for m in muts:
        if not re.search(a.only, m["id"]):
            continue
        try:
            ok = True
            for e in m["edits"]:
                p = os.path.join(REPO, e["file"])
                s = open(p).read()
                if s.count(e["old"]) != 1:
                    print("%s: pattern occurs %d times in %s" % (m["id"], s.count(e["old"]), e["file"])); ok = False; break
                open(p, "w").write(s.replace(e["old"], e["new"]))
            if not ok:
                continue
            b = sh("cd %s && GOFLAGS=-mod=mod GOPROXY=off GOSUMDB=off GOTOOLCHAIN=local go1.26.8 build ./... 2>&1 | tail -5" % REPO)
            if b.stdout.strip():
                print("%s: does not build: %s" % (m["id"], b.stdout)); continue
            for prop in m["props"]:
                t0 = time.time()
                env = dict(os.environ, VERIF_SEED=a.seed)
                try:
                    r = subprocess.run([os.path.join(VERIF, "check"), prop, "--tier", a.tier], cwd=VERIF, env=env,
                                       stdout=subprocess.PIPE, stderr=subprocess.STDOUT, text=True, timeout=900)
                except subprocess.TimeoutExpired:
                    sh("pkill -f '/verif/.work/.*t.bin'")
                    print("%-40s %-4s HANG" % (m["id"], prop))
                    results["%s|%s" % (m["id"], prop)] = {"status": "HANG", "what": m.get("what", "")}
                    continue
                viol = [l for l in r.stdout.splitlines() if l.startswith("VIOLATION")]
                fail = [l for l in r.stdout.splitlines() if l.startswith("failure:")]
                status = "KILLED" if (r.returncode == 1 and viol) else ("INFRA" if r.returncode == 2 else "SURVIVED")
                print("%-40s %-4s %-8s %.1fs %s" % (m["id"], prop, status, time.time() - t0, (fail[0][:160] if fail else "")))
                if status == "INFRA":
                    print(r.stdout[-1500:])
                results["%s|%s" % (m["id"], prop)] = {"status": status, "wall_s": round(time.time() - t0, 1), "what": m.get("what", ""),
                                                     "failure": fail[0][:300] if fail else "", "tier": a.tier, "seed": a.seed}
        finally:
            sh("git -C %s checkout -- ." % REPO)
    json.dump(results, open(respath, "w"), indent=1, sort_keys=True)
    return 0

if __name__ == "__main__":
    sys.exit(main())

//go:debug randseednop=0
package c16

import (
	"testing"

	"verifharness/hk"
)

func TestMain(m *testing.M) { hk.Main(m, "C16") }

func TestS3(t *testing.T) {
	hk.RunSub(t, hk.Sub[Plan]{Name: "s3/faults", Quick: 4000, Thorough: 16000, Gen: Gen, Run: Run, Journal: true})
}

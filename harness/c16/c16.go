// Package c16 checks C16: fault containment, loud failure and clean shutdown of the controller runtime.
package c16

import (
	"context"
	"errors"
	"fmt"
	"math"
	"math/rand"
	"sort"
	"strconv"
	"strings"
	"sync"
	"testing"
	"testing/synctest"
	"time"

	"go.uber.org/zap"
	"pgregory.net/rapid"

	"github.com/cosi-project/runtime/pkg/controller"
	"github.com/cosi-project/runtime/pkg/resource"
	"github.com/cosi-project/runtime/pkg/state"
	"github.com/cosi-project/runtime/pkg/task"

	"verifharness/c05"
	"verifharness/hk"
	"verifharness/hres"
	"verifharness/model"
	"verifharness/sim"
)

// PSpec is a plain probe with a failure pattern.
type PSpec struct {
	RunOut  []string `json:"runout"` // per wake-up: ok err panic
	BusyMs  int      `json:"busyms"`
	ResetOK bool     `json:"resetok"`
	ErrKind int      `json:"errkind,omitempty"` // what "err" returns: 0 plain, 1 wraps context.Canceled, 2 wraps context.DeadlineExceeded
	Track   bool     `json:"track,omitempty"`   // every wake-up is a tracked reconcile cycle (implies ResetOK: CleanupOutputs resets the backoff)
}

// QSpec is a queue probe with failure patterns.
type QSpec struct {
	RecOut  []string `json:"recout"`
	MapOut  []string `json:"mapout"`
	HookOut []string `json:"hookout"` // nil: no run hook
	Conc    int      `json:"conc"`
	BusyMs  int      `json:"busyms"`
	ErrKind int      `json:"errkind,omitempty"`
}

// TSpec is a task with a failure pattern.
type TSpec struct {
	Out     []string `json:"out"` // per run: err panic block finish
	ErrKind int      `json:"errkind,omitempty"`
}

// Plan is a C16 plan.
type Plan struct {
	Plains    []PSpec     `json:"plains"`
	Queues    []QSpec     `json:"queues"`
	Tasks     []TSpec     `json:"tasks"`
	Script    []c05.ExtOp `json:"script"`
	ErroredAt int         `json:"erroredat"` // inject an Errored event instead of the n-th delivered batch (-1: never)
	// RaceCancel (with ErroredAt): Run's context is cancelled at the very instant the failing batch is handed to the
	// runtime: Run must return (nil or the watch failure) whichever of the two it notices first.
	RaceCancel bool `json:"racecancel,omitempty"`
	CancelMs  int         `json:"cancelms"`  // cancel the run context at this instant (-1: only at the end)
}

func genOuts(t *rapid.T, label string, alphabet []string, max int) []string {
	return rapid.SliceOfN(rapid.SampledFrom(alphabet), 0, max).Draw(t, label)
}

// Gen draws a plan.
func Gen(t *rapid.T) Plan {
	p := Plan{ErroredAt: -1, CancelMs: -1}

	np := rapid.IntRange(1, 2).Draw(t, "nplain")
	for i := 0; i < np; i++ {
		p.Plains = append(p.Plains, PSpec{
			RunOut:  genOuts(t, "runout", []string{"ok", "ok", "err", "err", "panic"}, 8),
			BusyMs:  rapid.SampledFrom([]int{0, 0, 20, 400}).Draw(t, "pbusy"),
			ResetOK: rapid.Bool().Draw(t, "resetok"),
			// (controllers, run hooks and queue items: an error wrapping context.Canceled is the runtime's
			// "interrupted" convention - the conformance QIntToStrSleepingController returns the error of a
			// teardown-bound context - so only the deadline flavour is generated for them)
			ErrKind: rapid.SampledFrom([]int{0, 0, 2}).Draw(t, "perrkind"),
			Track:   rapid.IntRange(0, 2).Draw(t, "track") == 0,
		})

		if last := &p.Plains[len(p.Plains)-1]; last.Track {
			last.ResetOK = true
		}
	}

	nq := rapid.IntRange(0, 2).Draw(t, "nqueue")
	for i := 0; i < nq; i++ {
		q := QSpec{
			RecOut:  genOuts(t, "recout", []string{"ok", "ok", "err", "err", "panic", "requeue-err"}, 8),
			MapOut:  genOuts(t, "mapout", []string{"ok", "err", "panic"}, 4),
			Conc:    rapid.IntRange(1, 3).Draw(t, "qconc"),
			BusyMs:  rapid.SampledFrom([]int{0, 0, 20, 400}).Draw(t, "qbusy"),
			ErrKind: rapid.SampledFrom([]int{0, 0, 2}).Draw(t, "qerrkind"),
		}

		if rapid.Bool().Draw(t, "hashook") {
			q.HookOut = genOuts(t, "hookout", []string{"err", "err", "panic", "long-err"}, 5)
			if q.HookOut == nil {
				q.HookOut = []string{}
			}
		}

		p.Queues = append(p.Queues, q)
	}

	nt := rapid.IntRange(0, 2).Draw(t, "ntask")
	for i := 0; i < nt; i++ {
		p.Tasks = append(p.Tasks, TSpec{Out: genOuts(t, "taskout", []string{"err", "err", "panic", "finish"}, 6), ErrKind: rapid.SampledFrom([]int{0, 0, 1, 2}).Draw(t, "terrkind")})
	}

	// mostly dense histories within 20 s; sometimes a history spread over an hour, so that failures follow long
	// healthy periods (restart backoff must behave the same however long ago it was last reset)
	horizon := rapid.SampledFrom([]int{20000, 20000, 20000, 3600000}).Draw(t, "horizon")
	p.Script = c05.GenOps(t, "script", 2, 25, horizon)
	for i := range p.Script {
		p.Script[i].Typ %= 2
	}

	switch rapid.IntRange(0, 5).Draw(t, "ending") {
	case 0:
		p.ErroredAt = rapid.IntRange(0, 12).Draw(t, "erroredat")
		p.RaceCancel = rapid.Bool().Draw(t, "racecancel")
	case 1, 2:
		p.CancelMs = rapid.SampledFrom([]int{0, 1, 300, 510, 1000, 2500, 7000, 20000}).Draw(t, "cancelms")
	}

	return p
}

// Run executes the plan in a bubble.
func Run(p Plan) (v hk.Verdict) {
	rand.Seed(int64(len(p.Script))*13 + int64(len(p.Plains))) //nolint:staticcheck

	synctest.Test(hk.T(), func(*testing.T) { v = runBubble(p) })

	return v
}

const (
	initialInterval = 500 * time.Millisecond
	multiplier      = 1.5
	maxInterval     = 60 * time.Second
)

func envelope(n int) (time.Duration, time.Duration) {
	base := float64(initialInterval) * math.Pow(multiplier, float64(n))
	if base > float64(maxInterval) {
		base = float64(maxInterval)
	}

	return time.Duration(base * 0.5), time.Duration(base * 1.5)
}

var errInjectedWatch = errors.New("injected watch failure")

type taskSpec struct {
	id      string
	w       *sim.World
	out     sim.Outcomes
	errKind int
	mu      *sync.Mutex
	runs    *[]time.Duration
	ends    *[]time.Duration
}

func (s taskSpec) ID() task.ID { return s.id }

func (s taskSpec) RunTask(ctx context.Context, _ *zap.Logger, _ struct{}) error {
	s.mu.Lock()
	n := len(*s.runs)
	*s.runs = append(*s.runs, s.w.Now())
	s.mu.Unlock()

	s.w.Touch()

	defer func() {
		s.mu.Lock()
		*s.ends = append(*s.ends, s.w.Now())
		s.mu.Unlock()
	}()

	o := "block"
	if n < len(s.out) {
		o = s.out[n]
	}

	switch o {
	case "err":
		return sim.ScriptedErr(s.errKind, fmt.Sprintf("task %s run %d failed", s.id, n))
	case "panic":
		panic(fmt.Sprintf("task %s run %d panicked", s.id, n))
	case "finish":
		return nil
	}

	<-ctx.Done()

	return nil
}

//nolint:gocyclo,gocognit,cyclop,maintidx
func runBubble(p Plan) (v hk.Verdict) {
	var raceCancel func()

	wo := sim.WorldOptions{}
	if p.ErroredAt >= 0 {
		wo.InjectErrored = func(n int) error {
			if n == p.ErroredAt {
				if p.RaceCancel && raceCancel != nil {
					raceCancel()
				}

				return errInjectedWatch
			}

			return nil
		}
	}

	w, err := sim.NewWorld(wo)
	if err != nil {
		v.Failf("harness: %v", err)

		return v
	}

	raced := false
	raceCancel = func() {
		raced = true

		w.Cancel()
	}

	writer := func(name string) func(ctx context.Context, r controller.Writer, n int) {
		return func(ctx context.Context, r controller.Writer, n int) {
			_ = r.Modify(ctx, hres.New("n1", "TC", name, ""), func(x resource.Resource) error {
				x.(*hres.R).SetValue(name + "#" + strconv.Itoa(n)) //nolint:forcetypeassert

				return nil
			})
		}
	}

	var plains []*sim.PlainProbe

	for i, ps := range p.Plains {
		name := "plain" + strconv.Itoa(i)
		wr := writer(name)
		pp := &sim.PlainProbe{
			W: w, NameStr: name, Busy: time.Duration(ps.BusyMs) * time.Millisecond,
			Ins:    []sim.InSpec{{NS: "n1", Typ: "TA", Kind: controller.InputWeak}},
			Outs:   []sim.OutSpec{{Typ: "TC", Kind: controller.OutputShared}},
			RunOut: sim.Outcomes(ps.RunOut), ResetBackoffOnOK: ps.ResetOK, ErrKind: ps.ErrKind, TrackOutputs: ps.Track,
			OnWake: func(ctx context.Context, r controller.Runtime, _ *sim.PlainProbe, n int) { wr(ctx, r, n) },
		}
		plains = append(plains, pp)

		if err := w.RT.RegisterController(pp); err != nil {
			v.Failf("harness: %v", err)

			return v
		}
	}

	var queues []*sim.QProbe

	for i, qs := range p.Queues {
		name := "queue" + strconv.Itoa(i)
		wr := writer(name)
		qp := &sim.QProbe{
			W: w, NameStr: name, Conc: uint(qs.Conc), Busy: time.Duration(qs.BusyMs) * time.Millisecond,
			Ins:    []sim.InSpec{{NS: "n1", Typ: "TB", Kind: controller.InputQPrimary}, {NS: "n1", Typ: "TA", Kind: controller.InputQMapped}},
			Outs:   []sim.OutSpec{{Typ: "TC", Kind: controller.OutputShared}},
			Mapper: map[string][]string{"TA/a": {"a"}, "TA/b": {"a", "b"}, "TA/c": {}},
			RecOut: sim.Outcomes(qs.RecOut), MapOut: sim.Outcomes(qs.MapOut), Requeue: 700 * time.Millisecond, ErrKind: qs.ErrKind,
			OnReconcile: func(ctx context.Context, r controller.QRuntime, _ resource.Pointer, n int) error {
				wr(ctx, r, n)

				return nil
			},
		}

		if qs.HookOut != nil {
			qp.HookOut = sim.Outcomes(qs.HookOut)
		}

		queues = append(queues, qp)

		if err := w.RT.RegisterQController(qp); err != nil {
			v.Failf("harness: %v", err)

			return v
		}
	}

	// tasks
	var (
		tmu      sync.Mutex
		taskRuns = make([][]time.Duration, len(p.Tasks))
		taskEnds = make([][]time.Duration, len(p.Tasks))
	)

	runner := task.NewRunner[struct{}, taskSpec](func(x, y taskSpec) bool { return x.id == y.id })
	should := map[task.ID]taskSpec{}

	for i, ts := range p.Tasks {
		id := "task" + strconv.Itoa(i)
		should[id] = taskSpec{id: id, w: w, out: sim.Outcomes(ts.Out), errKind: ts.ErrKind, mu: &tmu, runs: &taskRuns[i], ends: &taskEnds[i]}
	}

	runner.Reconcile(w.Ctx, zap.NewNop(), should, struct{}{})

	var stillRunning []string

	w.OnRunReturn = func() {
		for _, pp := range plains {
			if pp.Active() {
				stillRunning = append(stillRunning, pp.NameStr)
			}
		}

		for _, qp := range queues {
			if qp.ShutdownCount() != 1 {
				stillRunning = append(stillRunning, qp.NameStr)
			}
		}
	}

	w.Run()
	synctest.Wait()

	ext := state.WrapCore(w.Ext)
	cancelled := false

	cancelNow := func() bool {
		cancelled = true

		w.Cancel()
		synctest.Wait()

		done, _ := w.RunResult()
		if !done {
			v.Failf("(iv) Run did not return after cancellation at %s", w.Now())

			return false
		}

		n := w.NCommits()

		time.Sleep(30 * time.Minute)
		synctest.Wait()

		if m := w.NCommits(); m != n {
			log, _ := w.Snapshot()
			v.Failf("(iv) %d write(s) were issued after Run returned: %s", m-n, sim.DescribeLog(log[n:], 5))

			return false
		}

		return true
	}

	for i, op := range p.Script {
		if p.CancelMs >= 0 && !cancelled && op.AtMs >= p.CancelMs {
			if d := time.Duration(p.CancelMs)*time.Millisecond - w.Now(); d > 0 {
				time.Sleep(d)
			}

			if !cancelNow() {
				return v
			}

			break
		}

		if d := time.Duration(op.AtMs)*time.Millisecond - w.Now(); d > 0 {
			time.Sleep(d)
		}

		c05.Apply(w.Ctx, ext, op, i)
	}

	if !cancelled {
		w.Quiesce(40)
	}

	if raced {
		// the context was cancelled at the instant the failing batch was handed over: this is a cancelled run
		cancelled = true

		synctest.Wait()

		done, rerr := w.RunResult()

		switch {
		case !done:
			v.Failf("(iv) Run did not return after a cancellation that raced the watch failure (batch #%d)", p.ErroredAt)

			return v
		case rerr != nil && !strings.Contains(rerr.Error(), errInjectedWatch.Error()):
			v.Failf("(iii) Run returned %v after a cancellation that raced the watch failure, want nil or the watch failure", rerr)
		}

		v.Label("cancel-raced-watch-failure")
	}

	log, cur := w.Snapshot()
	runDone, runErr := w.RunResult()

	// (iii) injected watch failure
	errored := false

	if p.ErroredAt >= 0 && !cancelled {
		// was the batch actually reached?
		if runDone {
			errored = true

			if runErr == nil || !strings.Contains(runErr.Error(), errInjectedWatch.Error()) {
				v.Failf("(iii) Run returned %v, want an error wrapping the injected watch failure", runErr)
			}

			v.Label("watch-failure-stopped-runtime")

			v.NonTrivial = true
		}
	} else if runDone && !cancelled {
		v.Failf("Run returned early without cancellation or watch failure: %v", runErr)
	}

	// (i) restart backoff envelopes
	for i, pp := range plains {
		obs, starts := pp.Snapshot()
		ps := p.Plains[i]

		// failures in order; each failing wake-up ends a run
		var failEnds []time.Duration

		consecutive := 0
		envN := []int{}

		for _, o := range obs {
			if o.Out == "err" || o.Out == "panic" {
				failEnds = append(failEnds, o.End)
				envN = append(envN, consecutive)
				consecutive++
			} else if ps.ResetOK {
				consecutive = 0
			}
		}

		nfail := len(failEnds)

		if !cancelled && !errored {
			if len(starts) != nfail+1 {
				v.Failf("(i) plain probe %s failed %d times but was started %d times", pp.NameStr, nfail, len(starts))
			}
		}

		for j := 0; j < nfail && j+1 < len(starts); j++ {
			gap := starts[j+1] - failEnds[j]
			lo, hi := envelope(envN[j])

			if gap < lo || gap > hi+time.Millisecond {
				v.Failf("(i) plain probe %s (resetOK=%v): restart #%d came %s after failure (consecutive failure #%d), outside the envelope [%s, %s]", pp.NameStr, ps.ResetOK, j+1, gap, envN[j]+1, lo, hi)
			}

			// a restarted controller performs a fresh reconcile
			fresh := false

			for _, o := range obs {
				if o.T >= starts[j+1] {
					fresh = true
				}
			}

			if !fresh && !cancelled && !errored {
				v.Failf("(i) plain probe %s was restarted at %s but never reconciled again", pp.NameStr, starts[j+1])
			}
		}

		if nfail >= 2 {
			v.Label("plain-consecutive-failures")

			v.NonTrivial = true
		}

		if nfail == 0 && len(starts) > 1 {
			v.Failf("(ii) plain probe %s never failed but was started %d times", pp.NameStr, len(starts))
		}
	}

	for qi, qp := range queues {
		if len(qp.Overlaps) > 0 {
			v.Failf("queue probe %s: %s", qp.NameStr, qp.Overlaps[0])
		}

		// run hook restarts
		hookOut := p.Queues[qi].HookOut
		consecutive := 0

		for j := 0; j+1 < len(qp.HookRuns) && j < len(hookOut); j++ {
			end := qp.HookRuns[j]
			if hookOut[j] == "long-err" {
				end += 2 * time.Minute
				consecutive = 0
			}

			gap := qp.HookRuns[j+1] - end
			lo, hi := envelope(consecutive)

			if gap < lo || gap > hi+time.Millisecond {
				v.Failf("(i) run hook of %s: restart #%d came %s after its failure (%s, consecutive #%d), outside [%s, %s]", qp.NameStr, j+1, gap, hookOut[j], consecutive+1, lo, hi)
			}

			consecutive++
		}

		if hookOut != nil && !cancelled && !errored {
			if want := len(hookOut) + 1; len(qp.HookRuns) != want {
				v.Failf("(i) run hook of %s failed %d times but ran %d times (want %d)", qp.NameStr, len(hookOut), len(qp.HookRuns), want)
			}
		}
	}

	tmu.Lock()
	for i, ts := range p.Tasks {
		runs, ends := taskRuns[i], taskEnds[i]

		nfail := 0
		for _, o := range ts.Out {
			if o == "finish" {
				break
			}

			nfail++
		}

		for j := 0; j < nfail && j+1 < len(runs) && j < len(ends); j++ {
			gap := runs[j+1] - ends[j]
			lo, hi := envelope(j)

			if gap < lo || gap > hi+time.Millisecond {
				v.Failf("(i) task%d: restart #%d came %s after its failure, outside [%s, %s]", i, j+1, gap, lo, hi)
			}
		}

		if !cancelled {
			if want := nfail + 1; len(runs) != want {
				v.Failf("(i) task%d: %d failing runs, %d runs observed (want %d)", i, nfail, len(runs), want)
			}
		}
	}
	tmu.Unlock()

	// (ii) convergence as if the faults had not happened
	if !cancelled && !errored && v.Fail == "" {
		var wantTA []*model.Res

		for k, r := range cur {
			if k.Typ == "TA" {
				wantTA = append(wantTA, r)
			}
		}

		sort.Slice(wantTA, func(i, j int) bool { return wantTA[i].ID < wantTA[j].ID })

		for _, pp := range plains {
			obs, _ := pp.Snapshot()
			if len(obs) == 0 {
				v.Failf("(ii) plain probe %s never ran", pp.NameStr)

				continue
			}

			last := obs[len(obs)-1]
			if !sameList(last.Seen["n1/TA/"], wantTA) {
				v.Failf("(ii) plain probe %s (pattern %v): last observation (t=%s) %v differs from the state %v after the faults ceased", pp.NameStr, pp.RunOut, last.T, last.Seen["n1/TA/"], wantTA)
			}
		}

		for qi, qp := range queues {
			obs := qp.Snapshot()
			lastRec := map[model.Key]*sim.Obs{}

			for j := range obs {
				if obs[j].Job == "reconcile" {
					lastRec[obs[j].Key] = &obs[j]
				}
			}

			for k, r := range cur {
				if k.Typ != "TB" {
					continue
				}

				o := lastRec[k]
				if o == nil || len(o.Seen["item"]) != 1 || !model.EqualValue(o.Seen["item"][0], r) {
					v.Failf("(ii) queue probe %s (patterns %v / %v): primary %s not reconciled to its current value after the faults ceased (last %+v)", qp.NameStr, p.Queues[qi].RecOut, p.Queues[qi].MapOut, r, o)
				}
			}

			// failing items are retried: the last invocation of every key did not fail
			for k, o := range lastRec {
				if o.Out == "err" || o.Out == "panic" || o.Out == "requeue-err" {
					v.Failf("(ii) queue probe %s: item %s failed (%s) and was never retried", qp.NameStr, k, o.Out)
				}
			}

			// mapped inputs: a failed MapInput is retried
			for j := range obs {
				if obs[j].Job == "map" && (obs[j].Out == "err" || obs[j].Out == "panic") {
					retried := false

					for l := j + 1; l < len(obs); l++ {
						if obs[l].Job == "map" && obs[l].Key == obs[j].Key {
							retried = true
						}
					}

					if !retried {
						v.Failf("(ii) queue probe %s: MapInput for %s failed and was never retried", qp.NameStr, obs[j].Key)
					}
				}
			}

			nf := 0

			for _, o := range obs {
				if o.Out == "err" || o.Out == "panic" {
					nf++
				}
			}

			if nf >= 2 {
				v.Label("queue-failures")

				v.NonTrivial = true
			}
		}
	}

	// (iv) shutdown
	if !cancelled {
		if !cancelNow() && v.Fail == "" {
			v.Failf("(iv) shutdown failed")
		}
	} else {
		v.NonTrivial = true

		v.Label("cancel-mid-run")
	}

	runner.Stop()
	synctest.Wait()

	if len(stillRunning) > 0 {
		v.Failf("(iv) when Run returned these controllers had not stopped yet: %v", stillRunning)
	}

	for _, qp := range queues {
		if qp.Shutdowns != 1 {
			v.Failf("(iv) shutdown hook of %s ran %d times, want 1", qp.NameStr, qp.Shutdowns)
		}
	}

	v.Outcome = fmt.Sprintf("%d commits, cancelled-mid-run=%v errored=%v", len(log), p.CancelMs >= 0, errored)

	return v
}

func sameList(a, b []*model.Res) bool {
	if len(a) != len(b) {
		return false
	}

	for i := range a {
		if !model.EqualValue(a[i], b[i]) {
			return false
		}
	}

	return true
}

//go:build verif

package c15

import (
	"context"
	"fmt"
	"regexp"
	"sync"
	"sync/atomic"
	"time"

	"pgregory.net/rapid"

	"github.com/cosi-project/runtime/pkg/controller/runtime/options"
	"github.com/cosi-project/runtime/pkg/controller/runtime/verifhooks"
	"github.com/cosi-project/runtime/pkg/resource"
	"github.com/cosi-project/runtime/pkg/state"

	"verifharness/hk"
	"verifharness/hres"
)

// Stress variant (S4, real goroutines) of the white-box cache check: the runtime applies watch events to the cache on
// one goroutine while controllers read it on others. A cached List must return contents the cache had at some moment:
// here, a set of resources that is never touched stays in every result, results stay sorted and free of duplicates,
// and every returned item is a complete object.

// SPlan is a stress plan.
type SPlan struct {
	Stable   int   `json:"stable"`   // resources that exist for the whole run (ids s000...)
	Volatile int   `json:"volatile"` // resources the writer keeps removing and re-adding (ids a00...: they sort first)
	Writes   int   `json:"writes"`
	Readers  int   `json:"readers"`
	Lists    int   `json:"lists"`
	Pattern  []int `json:"pattern"` // writer: index of the volatile resource toggled at each step (cycled)
	// CtxReaders goroutines keep binding contexts to the teardown of the volatile resources while the writer removes,
	// re-adds and tears them down; the writer ends by removing all of them, so every such context must end up cancelled.
	CtxReaders int `json:"ctx_readers,omitempty"`
}

// GenS draws a stress plan.
func GenS(t *rapid.T) SPlan {
	p := SPlan{
		Stable:   rapid.IntRange(5, 60).Draw(t, "stable"),
		Volatile: rapid.IntRange(1, 6).Draw(t, "volatile"),
		Writes:   rapid.IntRange(200, 3000).Draw(t, "writes"),
		Readers:  rapid.IntRange(1, 4).Draw(t, "readers"),
		Lists:    rapid.IntRange(20, 300).Draw(t, "lists"),
	}

	p.Pattern = rapid.SliceOfN(rapid.IntRange(0, p.Volatile-1), 1, 12).Draw(t, "pattern")
	p.CtxReaders = rapid.IntRange(0, 3).Draw(t, "ctxreaders")

	return p
}

// RunS executes the stress plan.
func RunS(p SPlan) (v hk.Verdict) {
	ctx, cancel := context.WithCancel(context.Background())
	defer cancel()

	c := verifhooks.NewResourceCache([]options.CachedResource{{Namespace: "n1", Type: "TA"}})
	kind := resource.NewMetadata("n1", "TA", "", resource.VersionUndefined)

	for i := 0; i < p.Volatile; i++ {
		c.CacheAppend(hres.New("n1", "TA", fmt.Sprintf("a%02d", i), "volatile"))
	}

	for i := 0; i < p.Stable; i++ {
		c.CacheAppend(hres.New("n1", "TA", fmt.Sprintf("s%03d", i), "stable"))
	}

	c.MarkBootstrapped("n1", "TA")

	var (
		wg       sync.WaitGroup
		failure  atomic.Value
		overlaps atomic.Int64
		writing  atomic.Bool
	)

	start := make(chan struct{})

	wg.Add(1)

	go func() {
		defer wg.Done()

		present := make([]bool, p.Volatile)
		for i := range present {
			present[i] = true
		}

		<-start

		writing.Store(true)
		defer writing.Store(false)

		for n := 0; n < p.Writes; n++ {
			i := p.Pattern[n%len(p.Pattern)]
			r := hres.New("n1", "TA", fmt.Sprintf("a%02d", i), "volatile")

			switch {
			case present[i] && n%3 == 0:
				// tear it down first (an update event), it is removed on its next turn
				r.Metadata().SetPhase(resource.PhaseTearingDown)
				c.CachePut(r)

				continue
			case present[i]:
				c.CacheRemove(r)
			default:
				c.CachePut(r)
			}

			present[i] = !present[i]
		}

		for i := range present {
			c.CacheRemove(hres.New("n1", "TA", fmt.Sprintf("a%02d", i), "volatile"))
		}
	}()

	var (
		boundMu sync.Mutex
		bound   []context.Context
	)

	for ri := 0; ri < p.CtxReaders; ri++ {
		wg.Add(1)

		go func() {
			defer wg.Done()

			<-start

			for n := 0; n < p.Lists && failure.Load() == nil; n++ {
				id := fmt.Sprintf("a%02d", (n+ri)%p.Volatile)

				tctx, err := c.ContextWithTeardown(ctx, resource.NewMetadata("n1", "TA", id, resource.VersionUndefined))
				if err != nil {
					failure.Store(fmt.Sprintf("ctx reader %d: ContextWithTeardown(%s) failed: %v", ri, id, err))

					return
				}

				boundMu.Lock()
				bound = append(bound, tctx)
				boundMu.Unlock()
			}
		}()
	}

	idq := state.WithIDQuery(resource.IDRegexpMatch(regexp.MustCompile("^s")))

	for ri := 0; ri < p.Readers; ri++ {
		wg.Add(1)

		go func() {
			defer wg.Done()

			<-start

			for n := 0; n < p.Lists && failure.Load() == nil; n++ {
				var (
					l   resource.List
					err error
				)

				filtered := (n+ri)%3 == 0
				during := writing.Load()

				if filtered {
					l, err = c.List(ctx, kind, idq)
				} else {
					l, err = c.List(ctx, kind)
				}

				if during && writing.Load() {
					overlaps.Add(1)
				}

				if err != nil {
					failure.Store(fmt.Sprintf("reader %d: cached List failed: %v", ri, err))

					return
				}

				stable, prev := 0, ""

				for _, it := range l.Items {
					if it == nil {
						failure.Store(fmt.Sprintf("reader %d: cached List returned a nil item", ri))

						return
					}

					id := it.Metadata().ID()
					if id <= prev {
						failure.Store(fmt.Sprintf("reader %d: cached List is not strictly sorted / has duplicates: %q after %q (%d items): such contents never existed", ri, id, prev, len(l.Items)))

						return
					}

					prev = id

					if id[0] == 's' {
						stable++

						if hres.Value(it) != "stable" {
							failure.Store(fmt.Sprintf("reader %d: item %s has value %q", ri, id, hres.Value(it)))

							return
						}
					} else if filtered {
						failure.Store(fmt.Sprintf("reader %d: ID-filtered cached List returned %s", ri, id))

						return
					}
				}

				if stable != p.Stable {
					failure.Store(fmt.Sprintf("reader %d: cached List returned %d of the %d resources that exist unchanged during the whole run (%d items in total): such contents never existed", ri, stable, p.Stable, len(l.Items)))

					return
				}
			}
		}()
	}

	close(start)
	wg.Wait()

	if f := failure.Load(); f != nil {
		v.Failf("%v", f)

		return v
	}

	// every volatile resource is gone now: each context bound to the teardown of one of them must be cancelled (the
	// cancellation is handed over by a goroutine per context: give those a moment)
	deadline := time.Now().Add(5 * time.Second)

	for _, tctx := range bound {
		for tctx.Err() == nil && time.Now().Before(deadline) {
			time.Sleep(time.Millisecond)
		}

		if tctx.Err() == nil {
			v.Failf("a context bound to the teardown of a cached resource is still live although the resource has been removed from the cache (%d contexts were bound while the writer was running)", len(bound))

			return v
		}
	}

	if len(bound) > 0 {
		v.Label("teardown-contexts-bound-during-writes")
	}

	if overlaps.Load() > 0 {
		v.NonTrivial = true

		v.Label("list-while-writer-active")
	}

	v.Outcome = fmt.Sprintf("%d lists overlapped the writer", overlaps.Load())

	return v
}

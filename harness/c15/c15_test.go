//go:build verif

//go:debug randseednop=0
package c15

import (
	"testing"

	"verifharness/hk"
)

func TestMain(m *testing.M) { hk.Main(m, "C15") }

func TestS3(t *testing.T) {
	hk.RunSub(t, hk.Sub[Plan]{Name: "s3/cache-coherence", Quick: 3000, Thorough: 12000, Gen: Gen, Run: Run, Journal: true})
}

func TestWhiteBox(t *testing.T) {
	hk.RunSub(t, hk.Sub[WPlan]{Name: "wb/cache-model", Quick: 3000, Thorough: 30000, Gen: GenW, Run: RunW, Journal: true})
}

// TestStress is the real-goroutine variant of the white-box check (cached reads concurrent with event application).
func TestStress(t *testing.T) {
	hk.RunSub(t, hk.Sub[SPlan]{Name: "s4/cache-stress", Quick: 800, Thorough: 4000, Gen: GenS, Run: RunS, Journal: true})
}

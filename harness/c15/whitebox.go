//go:build verif

package c15

import (
	"context"
	"fmt"
	"sort"
	"testing"
	"testing/synctest"

	"pgregory.net/rapid"

	"github.com/cosi-project/runtime/pkg/controller/runtime/options"
	"github.com/cosi-project/runtime/pkg/controller/runtime/verifhooks"
	"github.com/cosi-project/runtime/pkg/resource"
	"github.com/cosi-project/runtime/pkg/state"

	"verifharness/hk"
	"verifharness/hres"
	"verifharness/model"
)

// WOp is a white-box cache operation.
type WOp struct {
	K     string `json:"k"` // put remove get list ctx mutate-last
	ID    int    `json:"id"`
	Phase int    `json:"phase"`
	Val   int    `json:"val"`
}

// WPlan is a white-box plan.
type WPlan struct {
	Boot []int `json:"boot"` // ids appended before MarkBootstrapped (distinct, sorted by the producer as inmem does)
	Ops  []WOp `json:"ops"`
}

var wids = []string{"a", "b", "c", "d", "e"}

// GenW draws a white-box plan.
func GenW(t *rapid.T) WPlan {
	p := WPlan{Boot: rapid.SliceOfNDistinct(rapid.IntRange(0, 4), 0, 5, rapid.ID[int]).Draw(t, "boot")}
	sort.Ints(p.Boot)

	p.Ops = rapid.SliceOfN(rapid.Custom(func(t *rapid.T) WOp {
		return WOp{
			K:     rapid.SampledFrom([]string{"put", "put", "put", "remove", "get", "list", "ctx", "ctx", "cancel-waiter", "mutate-last"}).Draw(t, "k"),
			ID:    rapid.IntRange(0, 4).Draw(t, "id"),
			Phase: rapid.SampledFrom([]int{0, 0, 0, 1}).Draw(t, "phase"),
			Val:   rapid.IntRange(0, 99).Draw(t, "val"),
		}
	}), 1, 60).Draw(t, "ops")

	return p
}

// RunW runs the white-box plan.
func RunW(p WPlan) (v hk.Verdict) {
	synctest.Test(hk.T(), func(*testing.T) { v = runW(p) })

	return v
}

func runW(p WPlan) (v hk.Verdict) {
	ctx, cancel := context.WithCancel(context.Background())

	defer func() {
		cancel()
		synctest.Wait()
	}()

	c := verifhooks.NewResourceCache([]options.CachedResource{{Namespace: "n1", Type: "TA"}})
	m := map[string]*model.Res{}

	mk := func(id string, phase, val int, ver int) *hres.R {
		r := hres.New("n1", "TA", id, fmt.Sprint("v", val))
		r.Metadata().SetPhase(resource.Phase(phase))

		vv, _ := resource.ParseVersion(fmt.Sprint(ver))
		r.Metadata().SetVersion(vv)

		return r
	}

	vers := map[string]int{}

	// a reader issued before bootstrap must block
	early := make(chan resource.List, 1)

	go func() {
		l, _ := c.List(ctx, resource.NewMetadata("n1", "TA", "", resource.VersionUndefined))
		early <- l
	}()

	for _, i := range p.Boot {
		vers[wids[i]]++
		r := mk(wids[i], 0, 0, vers[wids[i]])
		c.CacheAppend(r)
		m[wids[i]] = model.FromResource(r)
	}

	synctest.Wait()

	select {
	case l := <-early:
		v.Failf("List returned %d items before MarkBootstrapped", len(l.Items))

		return v
	default:
	}

	c.MarkBootstrapped("n1", "TA")
	synctest.Wait()

	select {
	case l := <-early:
		if len(l.Items) != len(p.Boot) {
			v.Failf("early List returned %d items after bootstrap, want %d", len(l.Items), len(p.Boot))
		}
	default:
		v.Failf("List still blocked after MarkBootstrapped")

		return v
	}

	type waiter struct {
		id     string
		ctx    context.Context //nolint:containedctx
		exp    bool
		cancel context.CancelFunc // cancels this waiter's own parent context
	}

	var (
		waiters []*waiter
		lastGot resource.Resource
	)

	kind := resource.NewMetadata("n1", "TA", "", resource.VersionUndefined)

	for i, op := range p.Ops {
		id := wids[op.ID]

		switch op.K {
		case "put":
			vers[id]++
			r := mk(id, op.Phase, op.Val, vers[id])
			c.CachePut(r)
			m[id] = model.FromResource(r)

			if op.Phase == 1 {
				for _, w := range waiters {
					if w.id == id {
						w.exp = true
					}
				}
			}
		case "remove":
			c.CacheRemove(mk(id, 0, 0, 0))
			delete(m, id)

			for _, w := range waiters {
				if w.id == id {
					w.exp = true
				}
			}
		case "get":
			g, err := c.Get(ctx, resource.NewMetadata("n1", "TA", id, resource.VersionUndefined))
			want := m[id]

			switch {
			case err != nil && !state.IsNotFoundError(err):
				v.Failf("step %d: Get(%s) error %v", i, id, err)
			case err != nil && want != nil:
				v.Failf("step %d: Get(%s) not found, model has %s", i, id, want)
			case err == nil:
				if d := model.Diff(g, want); d != "" {
					v.Failf("step %d: Get(%s): %s", i, id, d)
				}

				lastGot = g
			}
		case "list":
			l, err := c.List(ctx, kind)
			if err != nil {
				v.Failf("step %d: List error %v", i, err)

				break
			}

			var wantIDs []string
			for k := range m {
				wantIDs = append(wantIDs, k)
			}

			sort.Strings(wantIDs)

			if len(l.Items) != len(wantIDs) {
				v.Failf("step %d: List returned %d items, model has %v", i, len(l.Items), wantIDs)

				break
			}

			for j, it := range l.Items {
				if it.Metadata().ID() != wantIDs[j] {
					v.Failf("step %d: List item %d is %s, want %s (sorted, complete)", i, j, it.Metadata().ID(), wantIDs[j])

					break
				}

				if d := model.Diff(it, m[wantIDs[j]]); d != "" {
					v.Failf("step %d: List item %s: %s", i, wantIDs[j], d)
				}
			}

			if len(l.Items) > 0 {
				lastGot = l.Items[0]
			}
		case "ctx":
			// every reader has its own parent context (e.g. its own reconcile)
			pctx, pcancel := context.WithCancel(ctx)

			tc, err := c.ContextWithTeardown(pctx, resource.NewMetadata("n1", "TA", id, resource.VersionUndefined))
			if err != nil {
				pcancel()
				v.Failf("step %d: ContextWithTeardown error %v", i, err)

				break
			}

			waiters = append(waiters, &waiter{id: id, ctx: tc, exp: m[id] == nil || m[id].Phase == 1, cancel: pcancel})
		case "cancel-waiter":
			// one reader goes away (its parent is cancelled): its own context ends, the others must not be affected
			if len(waiters) > 0 {
				w := waiters[op.Val%len(waiters)]
				w.cancel()
				w.exp = true

				others := 0

				for _, o := range waiters {
					if o != w && o.id == w.id && !o.exp {
						others++
					}
				}

				if others > 0 {
					v.NonTrivial = true

					v.Label("reader-left-while-others-wait")
				}
			}
		case "mutate-last":
			// a caller mutating what it got must not affect the cache (deep copies)
			if lastGot != nil {
				lastGot.Metadata().Labels().Set("mutated", "yes")
				lastGot.Metadata().SetPhase(resource.PhaseTearingDown)

				if hr, ok := lastGot.(*hres.R); ok {
					hr.SetValue("mutated")
				}

				v.Label("mutated-returned-object")

				v.NonTrivial = true
			}
		}

		synctest.Wait()

		for _, w := range waiters {
			if got := w.ctx.Err() != nil; got != w.exp {
				v.Failf("step %d (%+v): teardown-bound context for %s: done=%v, want %v", i, op, w.id, got, w.exp)
			}
		}

		if v.Fail != "" {
			return v
		}
	}

	if len(waiters) > 0 {
		v.NonTrivial = true

		v.Label("teardown-waiters")
	}

	for _, w := range waiters {
		w.cancel()
	}

	return v
}

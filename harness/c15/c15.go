//go:build verif

// Package c15 checks C15: the runtime read cache is coherent with the state and with notifications.
package c15

import (
	"context"
	"fmt"
	"math/rand"
	"regexp"
	"sort"
	"strconv"
	"sync"
	"sync/atomic"
	"testing"
	"testing/synctest"
	"time"

	"pgregory.net/rapid"

	"github.com/cosi-project/runtime/pkg/controller"
	"github.com/cosi-project/runtime/pkg/resource"
	"github.com/cosi-project/runtime/pkg/state"

	"verifharness/c05"
	"verifharness/hk"
	"verifharness/hres"
	"verifharness/model"
	"verifharness/sim"
)

// Read is a cached read by a free goroutine.
type Read struct {
	AtMs int    `json:"at"` // -1: issued before the runtime starts (must block until bootstrapped)
	K    string `json:"k"`  // get get-opts list list-label list-id
	Typ  int    `json:"typ"`
	ID   int    `json:"id"`
	// Via 1: the read goes through the reader probe's controller runtime (when it has started) instead of the
	// runtime's CachedState. "get-opts" is a Get with unmarshal options, which a cached kind may refuse - a refused
	// read is no observation - but which, when it answers, is a read like any other.
	Via int `json:"via,omitempty"`
}

// CtxReq is a ContextWithTeardown request on a cached resource.
type CtxReq struct {
	AtMs int `json:"at"`
	Typ  int `json:"typ"`
	ID   int `json:"id"`
}

// Plan is a C15 plan.
type Plan struct {
	Cached []int       `json:"cached"`
	Pre    []c05.ExtOp `json:"pre"`
	Script []c05.ExtOp `json:"script"`
	Reads  []Read      `json:"reads"`
	Ctxs   []CtxReq    `json:"ctxs"`
	// Writer: a second controller owns a resource "w" of the first cached kind (shared output) and rewrites it on
	// every wake-up (woken by changes of another kind); a foreign party reacts to each of its writes at once by
	// flipping a finalizer on "w"; PostMs is the time between the controller's write taking effect and the call
	// returning to it (cycled). The cache must follow the log however the controller's own writes come back to it.
	Writer bool  `json:"writer,omitempty"`
	PostMs []int `json:"postms,omitempty"`
	BusyMs int         `json:"busyms"`
	Deliv  []int       `json:"deliv"`
}

var (
	types = hres.Types
	ids   = []string{"a", "b", "c"}
	idRe  = regexp.MustCompile("^[ab]$")
)

// Gen draws a plan.
func Gen(t *rapid.T) Plan {
	p := Plan{}
	p.Cached = rapid.SliceOfNDistinct(rapid.IntRange(0, 1), 1, 2, rapid.ID[int]).Draw(t, "cached")
	p.Pre = c05.GenOps(t, "pre", 0, 8, 0)
	p.Script = c05.GenOps(t, "script", 3, 40, 3000)

	for i := range p.Pre {
		p.Pre[i].Typ %= 2
	}

	for i := range p.Script {
		p.Script[i].Typ %= 2
	}

	p.Reads = rapid.SliceOfN(rapid.Custom(func(t *rapid.T) Read {
		return Read{
			AtMs: rapid.SampledFrom([]int{-1, -1, 0, 1, 100, 500, 1000, 1500, 2500, 3500}).Draw(t, "rat"),
			K:    rapid.SampledFrom([]string{"get", "get", "get-opts", "list", "list", "list", "list-label", "list-id"}).Draw(t, "rk"),
			Typ:  rapid.SampledFrom(p.Cached).Draw(t, "rtyp"),
			ID:   rapid.IntRange(0, 2).Draw(t, "rid"),
			Via:  rapid.IntRange(0, 1).Draw(t, "rvia"),
		}
	}), 1, 12).Draw(t, "reads")

	p.Ctxs = rapid.SliceOfN(rapid.Custom(func(t *rapid.T) CtxReq {
		return CtxReq{
			AtMs: rapid.SampledFrom([]int{0, 700, 1700, 2600}).Draw(t, "cat"),
			Typ:  rapid.SampledFrom(p.Cached).Draw(t, "ctyp"),
			ID:   rapid.IntRange(0, 2).Draw(t, "cid"),
		}
	}), 0, 4).Draw(t, "ctxs")

	p.BusyMs = rapid.SampledFrom([]int{0, 0, 50, 600}).Draw(t, "busy")

	if rapid.IntRange(0, 2).Draw(t, "haswriter") == 0 {
		p.Writer = true
		p.PostMs = rapid.SliceOfN(rapid.SampledFrom([]int{0, 1, 20, 300}), 1, 4).Draw(t, "postms")
	}
	p.Deliv = rapid.SliceOfN(rapid.SampledFrom([]int{0, 0, 0, 5, 200, 700, -5, -200, -700}), 1, 6).Draw(t, "deliv")

	return p
}

type readRec struct {
	r        Read
	issued   time.Duration
	returned time.Duration
	done     bool
	err      error
	items    []*model.Res
	startTick int64 // global tick taken immediately before the call
	endTick   int64 // and immediately after it returned
	matched   int
	refused   bool // a Get with options the cached kind declined to serve: no observation
}

type ctxRec struct {
	c      CtxReq
	at     time.Duration
	logLen int
	ctx    context.Context //nolint:containedctx
	err    error
}

// Run executes the plan.
func Run(p Plan) (v hk.Verdict) {
	rand.Seed(int64(len(p.Script)) + 17) //nolint:staticcheck

	synctest.Test(hk.T(), func(*testing.T) { v = runBubble(p) })

	return v
}

func contentsAt(log []sim.LogEntry, n int, typ string) []*model.Res {
	m := map[string]*model.Res{}

	for _, e := range log[:n] {
		if e.Commit.New.Typ != typ {
			continue
		}

		if e.Commit.Kind == model.Destroyed {
			delete(m, e.Commit.New.ID)
		} else {
			m[e.Commit.New.ID] = e.Commit.New
		}
	}

	out := make([]*model.Res, 0, len(m))
	for _, r := range m {
		out = append(out, r)
	}

	sort.Slice(out, func(i, j int) bool { return out[i].ID < out[j].ID })

	return out
}

func filterFor(r Read, all []*model.Res) []*model.Res {
	var out []*model.Res

	for _, x := range all {
		switch r.K {
		case "get", "get-opts":
			if x.ID != ids[r.ID] {
				continue
			}
		case "list-label":
			if _, ok := x.Labels[hres.LabelKeys[0]]; !ok {
				continue
			}
		case "list-id":
			if !idRe.MatchString(x.ID) {
				continue
			}
		}

		out = append(out, x)
	}

	return out
}

func sameList(a, b []*model.Res) bool {
	if len(a) != len(b) {
		return false
	}

	for i := range a {
		if !model.EqualValue(a[i], b[i]) {
			return false
		}
	}

	return true
}

//nolint:gocyclo,gocognit,cyclop,maintidx
func runBubble(p Plan) (v hk.Verdict) {
	var cached []model.Key
	for _, c := range p.Cached {
		cached = append(cached, model.Key{NS: "n1", Typ: types[c]})
	}

	wopts := sim.WorldOptions{
		Cached:     cached,
		DelivDelay: func(n int) time.Duration { return time.Duration(p.Deliv[n%len(p.Deliv)]) * time.Millisecond },
	}

	if p.Writer {
		wopts.RTPostLatency = func(_ string, n int) time.Duration { return time.Duration(p.PostMs[n%len(p.PostMs)]) * time.Millisecond }
	}

	w, err := sim.NewWorld(wopts)
	if err != nil {
		v.Failf("harness: %v", err)

		return v
	}

	ext := state.WrapCore(w.Ext)

	for i, op := range p.Pre {
		c05.Apply(w.Ctx, ext, op, 1000+i)
	}

	preLen := w.NCommits()

	// a probe reading the cached kinds through the runtime
	var pins []sim.InSpec
	for _, c := range p.Cached {
		pins = append(pins, sim.InSpec{NS: "n1", Typ: types[c], Kind: controller.InputWeak})
	}

	probe := &sim.PlainProbe{W: w, NameStr: "reader", Ins: pins, Busy: time.Duration(p.BusyMs) * time.Millisecond}
	if err := w.RT.RegisterController(probe); err != nil {
		v.Failf("harness: %v", err)

		return v
	}

	if p.Writer {
		outTyp := types[p.Cached[0]]
		inTyp := types[(p.Cached[0]+1)%2]

		writer := &sim.PlainProbe{W: w, NameStr: "writer", Ins: []sim.InSpec{{NS: "n1", Typ: inTyp, Kind: controller.InputWeak}},
			Outs: []sim.OutSpec{{Typ: outTyp, Kind: controller.OutputShared}},
			OnWake: func(ctx context.Context, r controller.Runtime, _ *sim.PlainProbe, n int) {
				_ = r.Modify(ctx, hres.New("n1", outTyp, "w", ""), func(x resource.Resource) error {
					x.(*hres.R).SetValue("w#" + strconv.Itoa(n)) //nolint:forcetypeassert

					return nil
				})
			}}
		if err := w.RT.RegisterController(writer); err != nil {
			v.Failf("harness: %v", err)

			return v
		}

		// the foreign party: reacts to every write of the owner at the instant it takes effect
		fch := make(chan state.Event)
		if err := w.Inner.WatchKind(w.Ctx, resource.NewMetadata("n1", outTyp, "", resource.VersionUndefined), fch); err != nil {
			v.Failf("harness: %v", err)

			return v
		}

		go func() {
			ptr := resource.NewMetadata("n1", outTyp, "w", resource.VersionUndefined)
			lastVal := ""

			for {
				select {
				case <-w.Ctx.Done():
					return
				case e := <-fch:
					if e.Resource == nil || e.Resource.Metadata().ID() != "w" || e.Type == state.Destroyed || hres.Value(e.Resource) == lastVal {
						continue
					}

					lastVal = hres.Value(e.Resource)

					if e.Resource.Metadata().Finalizers().Has("foreign") {
						_ = ext.RemoveFinalizer(w.Ctx, ptr, "foreign")
					} else {
						_ = ext.AddFinalizer(w.Ctx, ptr, "foreign")
					}
				}
			}
		}()
	}

	cs := w.RT.CachedState()

	var (
		mu   sync.Mutex
		recs = make([]*readRec, len(p.Reads))
		tick atomic.Int64
	)

	issue := func(i int) {
		r := p.Reads[i]
		rec := &readRec{r: r, issued: w.Now()}

		mu.Lock()
		recs[i] = rec
		mu.Unlock()

		go func() {
			kind := resource.NewMetadata("n1", types[r.Typ], "", resource.VersionUndefined)

			var (
				items   []*model.Res
				err     error
				refused bool
			)

			// the reader: the runtime's cached state, or the reader probe's view of the runtime
			type reader interface {
				Get(context.Context, resource.Pointer, ...state.GetOption) (resource.Resource, error)
				List(context.Context, resource.Kind, ...state.ListOption) (resource.List, error)
			}

			var cs reader = cs

			if r.Via == 1 && r.AtMs >= 0 {
				if rt := probe.Runtime(); rt != nil {
					cs = rt
				}
			}

			start := tick.Add(1)

			switch r.K {
			case "get", "get-opts":
				var (
					g    resource.Resource
					opts []state.GetOption
				)

				if r.K == "get-opts" {
					opts = append(opts, state.WithGetUnmarshalOptions(state.WithSkipProtobufUnmarshal()))
				}

				g, err = cs.Get(w.Ctx, resource.NewMetadata("n1", types[r.Typ], ids[r.ID], resource.VersionUndefined), opts...)

				switch {
				case err == nil:
					items = []*model.Res{model.FromResource(g)}
				case state.IsNotFoundError(err):
					err = nil
				case r.K == "get-opts":
					refused = true
					err = nil
				}
			default:
				var (
					l    resource.List
					opts []state.ListOption
				)

				switch r.K {
				case "list-label":
					opts = append(opts, state.WithLabelQuery(resource.LabelExists(hres.LabelKeys[0])))
				case "list-id":
					opts = append(opts, state.WithIDQuery(resource.IDRegexpMatch(idRe)))
				}

				l, err = cs.List(w.Ctx, kind, opts...)

				for _, it := range l.Items {
					items = append(items, model.FromResource(it))
				}
			}

			end := tick.Add(1)

			mu.Lock()
			rec.done, rec.err, rec.items, rec.returned = true, err, items, w.Now()
			rec.refused = refused
			rec.startTick, rec.endTick = start, end
			mu.Unlock()
		}()
	}

	for i, r := range p.Reads {
		if r.AtMs < 0 {
			issue(i)
		}
	}

	synctest.Wait()

	// reads issued before the start must still be blocked
	mu.Lock()
	for _, rec := range recs {
		if rec != nil && rec.done && !rec.refused {
			v.Failf("cached %s of %s issued before the runtime started returned (%v, %v) before the cache was bootstrapped", rec.r.K, types[rec.r.Typ], rec.items, rec.err)
		}
	}
	mu.Unlock()

	w.Run()

	// timeline
	type ev struct {
		at   int
		kind int // 0 script 1 read 2 ctx
		idx  int
	}

	var tl []ev

	for i, op := range p.Script {
		tl = append(tl, ev{op.AtMs, 0, i})
	}

	for i, r := range p.Reads {
		if r.AtMs >= 0 {
			tl = append(tl, ev{r.AtMs, 1, i})
		}
	}

	for i, c := range p.Ctxs {
		tl = append(tl, ev{c.AtMs, 2, i})
	}

	sort.SliceStable(tl, func(i, j int) bool { return tl[i].at < tl[j].at })

	ctxs := make([]*ctxRec, len(p.Ctxs))

	for _, e := range tl {
		if d := time.Duration(e.at)*time.Millisecond - w.Now(); d > 0 {
			time.Sleep(d)
		}

		switch e.kind {
		case 0:
			c05.Apply(w.Ctx, ext, p.Script[e.idx], e.idx)
		case 1:
			issue(e.idx)
		case 2:
			// teardown-bound contexts are requested at quiet moments so that the cache view and the store agree
			time.Sleep(3 * time.Second)
			synctest.Wait()

			c := p.Ctxs[e.idx]
			cr := &ctxRec{c: c, at: w.Now(), logLen: w.NCommits()}

			if rt := probe.Runtime(); rt != nil {
				cr.ctx, cr.err = rt.ContextWithTeardown(w.Ctx, resource.NewMetadata("n1", types[c.Typ], ids[c.ID], resource.VersionUndefined))
				if cr.err != nil {
					v.Failf("ContextWithTeardown on cached %s/%s failed: %v", types[c.Typ], ids[c.ID], cr.err)
				}
			}

			ctxs[e.idx] = cr
		}
	}

	quiet := w.Quiesce(30)
	log, cur := w.Snapshot()

	defer func() {
		if done, _ := w.Stop(); !done && v.Fail == "" {
			v.Failf("runtime did not stop")
		}
	}()

	if done, rerr := w.RunResult(); done {
		v.Failf("runtime returned early: %v", rerr)

		return v
	}

	if !quiet {
		v.Inconclusive = true

		v.Label("not-quiescent")

		return v
	}

	// (1)-(3): every read equals the contents at some commit index >= the bootstrap snapshot, monotone in return order
	mu.Lock()
	ordered := append([]*readRec(nil), recs...)
	mu.Unlock()

	sort.SliceStable(ordered, func(i, j int) bool { return ordered[i].endTick < ordered[j].endTick })

	for oi, rec := range ordered {
		if !rec.done {
			v.Failf("cached %s of %s issued at %s never returned", rec.r.K, types[rec.r.Typ], rec.issued)

			continue
		}

		if rec.err != nil {
			v.Failf("cached %s of %s failed: %v", rec.r.K, types[rec.r.Typ], rec.err)

			continue
		}

		if rec.refused {
			v.Label("get-with-options-refused")

			continue
		}

		if rec.r.K == "get-opts" {
			v.Label("get-with-options-answered")
		}

		typ := types[rec.r.Typ]
		lo := preLen

		// monotonicity floor: reads of the kind that returned before this read was issued (real-time order). Their
		// smallest matching index is a lower bound of the index of the view they saw.
		for _, prev := range ordered[:oi] {
			if prev.done && prev.err == nil && !prev.refused && prev.r.Typ == rec.r.Typ && prev.endTick < rec.startTick && prev.matched > lo {
				lo = prev.matched
			}
		}

		found := -1

		for i := lo; i <= len(log); i++ {
			if sameList(rec.items, filterFor(rec.r, contentsAt(log, i, typ))) {
				found = i

				break
			}
		}

		if found < 0 {
			// distinguish: matches an older index (went backwards / pre-bootstrap view) or nothing at all
			older := -1

			for i := 0; i < lo; i++ {
				if sameList(rec.items, filterFor(rec.r, contentsAt(log, i, typ))) {
					older = i
				}
			}

			v.Failf("cached %s of %s (issued %s, returned %s) returned %v which equals the contents at no commit index in [%d, %d] (bootstrap snapshot at %d, previous read at >= %d; equals older index %d); log: %s",
				rec.r.K, typ, rec.issued, rec.returned, rec.items, lo, len(log), preLen, lo, older, sim.DescribeLog(log, 30))

			continue
		}

		// the smallest matching index is a lower bound of the view's index; keep it as the monotonicity floor only if
		// the read distinguishes indices (full lists do, filtered ones may not)
		rec.matched = found

		if rec.r.AtMs < 0 {
			v.NonTrivial = true

			v.Label("read-blocked-until-bootstrap")
		}
	}

	// straddling reads
	for i := range ordered {
		for j := i + 1; j < len(ordered); j++ {
			a, b := ordered[i], ordered[j]
			if a.r.Typ != b.r.Typ || !a.done || !b.done {
				continue
			}

			for _, e := range log {
				if e.Commit.New.Typ == types[a.r.Typ] && e.T > a.returned && e.T < b.returned && e.Commit.Kind == model.Updated {
					v.NonTrivial = true

					v.Label("reads-straddle-update")
				}
			}
		}
	}

	// (4) at quiescence cached reads equal uncached reads
	for _, c := range p.Cached {
		kind := resource.NewMetadata("n1", types[c], "", resource.VersionUndefined)

		cl, err1 := cs.List(w.Ctx, kind)
		ul, err2 := w.Inner.List(w.Ctx, kind)

		if err1 != nil || err2 != nil {
			v.Failf("list at quiescence failed: %v %v", err1, err2)

			continue
		}

		var a, b []*model.Res
		for _, it := range cl.Items {
			a = append(a, model.FromResource(it))
		}

		for _, it := range ul.Items {
			b = append(b, model.FromResource(it))
		}

		if !sameList(a, b) {
			v.Failf("at quiescence the cached list of %s is %v but the state has %v", types[c], a, b)
		}

		for i := 1; i < len(cl.Items); i++ {
			if cl.Items[i-1].Metadata().ID() >= cl.Items[i].Metadata().ID() {
				v.Failf("cached list of %s is not sorted by id", types[c])
			}
		}
	}

	// (5) the probe's last observation through the cache equals the current state
	obs, _ := probe.Snapshot()
	if len(obs) == 0 {
		v.Failf("the reader probe never ran")
	} else {
		last := obs[len(obs)-1]

		for _, in := range pins {
			key := in.NS + "/" + in.Typ + "/"

			if e, bad := last.Errs[key]; bad {
				v.Failf("reader probe could not read %s: %s", key, e)

				continue
			}

			var want []*model.Res

			for k, r := range cur {
				if k.Typ == in.Typ {
					want = append(want, r)
				}
			}

			sort.Slice(want, func(i, j int) bool { return want[i].ID < want[j].ID })

			if !sameList(last.Seen[key], want) {
				v.Failf("reader probe (busy %dms) was last woken at %s (log length %d of %d) and read %v through the cache, but the state is %v: the read was older than the notification that woke it",
					p.BusyMs, last.T, last.LogLen, len(log), last.Seen[key], want)
			}
		}
	}

	// (6) teardown-bound contexts
	for _, cr := range ctxs {
		if cr == nil || cr.ctx == nil {
			continue
		}

		k := model.Key{NS: "n1", Typ: types[cr.c.Typ], ID: ids[cr.c.ID]}
		at := map[model.Key]*model.Res{}

		for _, e := range log[:cr.logLen] {
			if e.Commit.Kind == model.Destroyed {
				delete(at, e.Commit.New.Key)
			} else {
				at[e.Commit.New.Key] = e.Commit.New
			}
		}

		want := at[k] == nil || at[k].Phase == 1

		for _, e := range log[cr.logLen:] {
			if e.Commit.New.Key == k && (e.Commit.Kind == model.Destroyed || e.Commit.New.Phase == 1) {
				want = true
			}
		}

		if got := cr.ctx.Err() != nil; got != want {
			v.Failf("teardown-bound context for cached %s requested at %s: done=%v, want %v (state then %s, now %s)", k, cr.at, got, want, at[k], cur[k])
		}

		v.Label("ctx-checked:" + strconv.FormatBool(want))
	}

	v.Outcome = fmt.Sprintf("%d commits, %d reads", len(log), len(recs))

	return v
}

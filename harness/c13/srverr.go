package c13

import (
	"context"
	"errors"
	"sync"

	"github.com/cosi-project/runtime/pkg/resource"
	"github.com/cosi-project/runtime/pkg/state"
)

// errInjected is what the backing state's watch reports when it gives up (as a buffer overrun does).
var errInjected = errors.New("injected: watch buffer overrun")

// srvErrState sits between the gRPC server and the backing state: the n-th watch the server opens delivers `after`
// events and then ends with an Errored event, the way an in-memory watch ends when its reader is overrun. The
// reference watch reads the backing state directly and is not affected.
type srvErrState struct {
	state.CoreState

	mu     sync.Mutex
	opened int
	nth    int // -1 = never
	after  int
}

func (s *srvErrState) arm() bool {
	s.mu.Lock()
	defer s.mu.Unlock()

	n := s.opened
	s.opened++

	return s.nth >= 0 && n == s.nth
}

func relay[T any](ctx context.Context, in <-chan T, out chan<- T, count func(T) int, after int, errored T) {
	seen := 0

	for {
		select {
		case <-ctx.Done():
			return
		case e := <-in:
			select {
			case out <- e:
			case <-ctx.Done():
				return
			}

			if seen += count(e); seen >= after {
				select {
				case out <- errored:
				case <-ctx.Done():
				}

				return
			}
		}
	}
}

func (s *srvErrState) Watch(ctx context.Context, ptr resource.Pointer, ch chan<- state.Event, opts ...state.WatchOption) error {
	if !s.arm() {
		return s.CoreState.Watch(ctx, ptr, ch, opts...)
	}

	in := make(chan state.Event)
	if err := s.CoreState.Watch(ctx, ptr, in, opts...); err != nil {
		return err
	}

	go relay(ctx, in, ch, func(state.Event) int { return 1 }, s.after, state.Event{Type: state.Errored, Error: errInjected})

	return nil
}

func (s *srvErrState) WatchKind(ctx context.Context, kind resource.Kind, ch chan<- state.Event, opts ...state.WatchKindOption) error {
	if !s.arm() {
		return s.CoreState.WatchKind(ctx, kind, ch, opts...)
	}

	in := make(chan state.Event)
	if err := s.CoreState.WatchKind(ctx, kind, in, opts...); err != nil {
		return err
	}

	go relay(ctx, in, ch, func(state.Event) int { return 1 }, s.after, state.Event{Type: state.Errored, Error: errInjected})

	return nil
}

func (s *srvErrState) WatchKindAggregated(ctx context.Context, kind resource.Kind, ch chan<- []state.Event, opts ...state.WatchKindOption) error {
	if !s.arm() {
		return s.CoreState.WatchKindAggregated(ctx, kind, ch, opts...)
	}

	in := make(chan []state.Event)
	if err := s.CoreState.WatchKindAggregated(ctx, kind, in, opts...); err != nil {
		return err
	}

	go relay(ctx, in, ch, func(b []state.Event) int { return len(b) }, s.after, []state.Event{{Type: state.Errored, Error: errInjected}})

	return nil
}

//go:debug randseednop=0
package c13

import (
	"testing"

	"verifharness/hk"
)

func TestMain(m *testing.M) { hk.Main(m, "C13") }

func TestS3g(t *testing.T) {
	hk.RunSub(t, hk.Sub[Plan]{Name: "s3g/transport-faults", Quick: 2000, Thorough: 10000, Gen: Gen, Run: Run, Journal: true})
}

// Package c13 checks C13: remote watches survive transport failures without gaps or duplicates.
package c13

import (
	"context"
	"fmt"
	"math/rand"
	"net"
	"regexp"
	"sort"
	"strconv"
	"sync"
	"testing"
	"testing/synctest"
	"time"

	"google.golang.org/grpc"
	"google.golang.org/grpc/codes"
	"google.golang.org/grpc/credentials/insecure"
	"google.golang.org/grpc/status"
	"google.golang.org/grpc/test/bufconn"
	"pgregory.net/rapid"

	"github.com/cosi-project/runtime/api/v1alpha1"
	"github.com/cosi-project/runtime/pkg/resource"
	"github.com/cosi-project/runtime/pkg/state"
	"github.com/cosi-project/runtime/pkg/state/impl/inmem"
	"github.com/cosi-project/runtime/pkg/state/protobuf/client"
	"github.com/cosi-project/runtime/pkg/state/protobuf/server"

	"verifharness/hk"
	"verifharness/hres"
	"verifharness/sim"
)

// WOp is a write on the backing state.
type WOp struct {
	AtMs int    `json:"at"`
	K    string `json:"k"` // create update destroy label
	ID   int    `json:"id"`
}

// Fault is a scripted transport fault.
type Fault struct {
	// RecvMsg failure: on the Stream-th watch stream opened (0 = the original), fail the Msg-th RecvMsg call (0-based).
	Stream int `json:"stream"`
	Msg    int `json:"msg"`
}

// Outage stops the server for a while.
type Outage struct {
	AtMs  int `json:"at"`
	ForMs int `json:"for"`
}

// Plan is a C13 plan.
type Plan struct {
	Init, Max, Gap int      `json:"-"`
	Cap            [3]int   `json:"cap"`
	Mode           string   `json:"mode"` // single kind agg
	Opt            string   `json:"opt"`  // plain contents bookmark tail label
	NoRetry        bool     `json:"noretry"`
	Pre            []WOp    `json:"pre"`
	Script         []WOp    `json:"script"`
	Faults         []Fault  `json:"faults"`
	FailOpens      []int    `json:"failopens"` // indexes of stream-open attempts (>= 1) that fail
	Outages        []Outage `json:"outages"`
	// SrvErr: the SrvErr[0]-th watch the server opens on the backing state ends, after SrvErr[1] events, with an
	// Errored event (nil = never): the remote watch has to end with Errored too, or carry on transparently.
	SrvErr []int `json:"srverr,omitempty"`
}

var ids = []string{"a", "b", "c"}

func genW(t *rapid.T, label string, lo, hi, maxMs int) []WOp {
	ops := rapid.SliceOfN(rapid.Custom(func(t *rapid.T) WOp {
		return WOp{
			AtMs: rapid.IntRange(0, maxMs).Draw(t, "at"),
			K:    rapid.SampledFrom([]string{"create", "create", "update", "update", "update", "label", "destroy"}).Draw(t, "k"),
			ID:   rapid.IntRange(0, 2).Draw(t, "id"),
		}
	}), lo, hi).Draw(t, label)

	sort.SliceStable(ops, func(i, j int) bool { return ops[i].AtMs < ops[j].AtMs })

	return ops
}

// Gen draws a plan.
func Gen(t *rapid.T) Plan {
	p := Plan{
		Mode:    rapid.SampledFrom([]string{"single", "kind", "kind", "agg", "agg"}).Draw(t, "mode"),
		Opt:     rapid.SampledFrom([]string{"plain", "contents", "contents", "bookmark", "tail", "label", "idquery", "label-id"}).Draw(t, "opt"),
		NoRetry: rapid.IntRange(0, 5).Draw(t, "noretry") == 0,
	}

	if rapid.IntRange(0, 2).Draw(t, "smallcap") == 0 {
		init := rapid.IntRange(2, 8).Draw(t, "init")
		p.Cap = [3]int{init, rapid.IntRange(init, 2*init).Draw(t, "max"), rapid.IntRange(0, init-1).Draw(t, "gap")}
	} else {
		p.Cap = [3]int{100, 100, 5}
	}

	if p.Mode == "single" && (p.Opt == "contents" || p.Opt == "bookmark" || p.Opt == "label" || p.Opt == "idquery" || p.Opt == "label-id") {
		p.Opt = "plain"
	}

	p.Pre = genW(t, "pre", 0, 6, 0)
	p.Script = genW(t, "script", 6, 40, 60000)

	p.Faults = rapid.SliceOfN(rapid.Custom(func(t *rapid.T) Fault {
		return Fault{Stream: rapid.SampledFrom([]int{0, 0, 0, 1, 1, 2, 3}).Draw(t, "fstream"), Msg: rapid.SampledFrom([]int{0, 1, 1, 2, 2, 3, 3, 4, 5, 6, 8}).Draw(t, "fmsg")}
	}), 0, 4).Draw(t, "faults")

	p.FailOpens = rapid.SliceOfNDistinct(rapid.IntRange(1, 6), 0, 3, rapid.ID[int]).Draw(t, "failopens")

	p.Outages = rapid.SliceOfN(rapid.Custom(func(t *rapid.T) Outage {
		return Outage{AtMs: rapid.IntRange(0, 50000).Draw(t, "oat"), ForMs: rapid.SampledFrom([]int{100, 3000, 20000, 120000}).Draw(t, "ofor")}
	}), 0, 2).Draw(t, "outages")

	sort.SliceStable(p.Outages, func(i, j int) bool { return p.Outages[i].AtMs < p.Outages[j].AtMs })

	if rapid.IntRange(0, 3).Draw(t, "hassrverr") == 0 {
		p.SrvErr = []int{rapid.SampledFrom([]int{0, 0, 1, 2}).Draw(t, "srverr-watch"), rapid.IntRange(1, 8).Draw(t, "srverr-after")}
	}

	return p
}

// Run executes the plan in a bubble.
func Run(p Plan) (v hk.Verdict) {
	rand.Seed(int64(len(p.Script))*7 + int64(len(p.Faults))) //nolint:staticcheck

	synctest.Test(hk.T(), func(*testing.T) { v = runBubble(p) })

	return v
}

// transport owns the listener/server pair and the fault-injecting interceptor.
type transport struct {
	mu      sync.Mutex
	lis     *bufconn.Listener
	srv     *grpc.Server
	handler v1alpha1.StateServer

	plan      Plan
	opens     int // watch stream open attempts
	streams   int // successfully opened watch streams
	injected  []time.Duration
	reopened  []time.Duration
	start     time.Time
	failOpens map[int]bool
}

func (tr *transport) up() {
	tr.mu.Lock()
	defer tr.mu.Unlock()

	tr.lis = bufconn.Listen(1 << 20)
	tr.srv = grpc.NewServer()
	v1alpha1.RegisterStateServer(tr.srv, tr.handler)

	lis, srv := tr.lis, tr.srv

	go func() { _ = srv.Serve(lis) }()
}

func (tr *transport) down() {
	tr.mu.Lock()
	srv := tr.srv
	tr.srv, tr.lis = nil, nil
	tr.mu.Unlock()

	if srv != nil {
		srv.Stop()
	}
}

func (tr *transport) dial(ctx context.Context, _ string) (net.Conn, error) {
	tr.mu.Lock()
	lis := tr.lis
	tr.mu.Unlock()

	if lis == nil {
		return nil, fmt.Errorf("server is down")
	}

	return lis.DialContext(ctx)
}

type faultyStream struct {
	grpc.ClientStream
	tr     *transport
	idx    int
	n      int
	cancel context.CancelFunc
}

func (s *faultyStream) RecvMsg(m any) error {
	s.tr.mu.Lock()
	n := s.n
	s.n++

	fail := false

	for _, f := range s.tr.plan.Faults {
		if f.Stream == s.idx && f.Msg == n {
			fail = true
		}
	}

	if fail {
		s.tr.injected = append(s.tr.injected, time.Since(s.tr.start))
	}
	s.tr.mu.Unlock()

	if fail {
		s.cancel()

		return status.Error(codes.Unavailable, "injected stream reset")
	}

	return s.ClientStream.RecvMsg(m)
}

func (tr *transport) intercept(ctx context.Context, desc *grpc.StreamDesc, cc *grpc.ClientConn, method string, streamer grpc.Streamer, opts ...grpc.CallOption) (grpc.ClientStream, error) {
	if method != v1alpha1.State_Watch_FullMethodName {
		return streamer(ctx, desc, cc, method, opts...)
	}

	tr.mu.Lock()
	attempt := tr.opens
	tr.opens++
	failOpen := tr.failOpens[attempt]
	tr.mu.Unlock()

	if failOpen {
		return nil, status.Error(codes.Unavailable, "injected connection failure")
	}

	sctx, cancel := context.WithCancel(ctx)

	cs, err := streamer(sctx, desc, cc, method, opts...)
	if err != nil {
		cancel()

		return nil, err
	}

	tr.mu.Lock()
	idx := tr.streams
	tr.streams++

	if idx > 0 {
		tr.reopened = append(tr.reopened, time.Since(tr.start))
	}
	tr.mu.Unlock()

	return &faultyStream{ClientStream: cs, tr: tr, idx: idx, cancel: cancel}, nil
}

type collector struct {
	mu  sync.Mutex
	evs []state.Event
}

func (c *collector) add(e ...state.Event) {
	c.mu.Lock()
	c.evs = append(c.evs, e...)
	c.mu.Unlock()
}

func (c *collector) snapshot() []state.Event {
	c.mu.Lock()
	defer c.mu.Unlock()

	return append([]state.Event(nil), c.evs...)
}

func startWatch(ctx context.Context, st state.CoreState, p Plan, c *collector) error {
	kind := resource.NewMetadata("n1", "TA", "", resource.VersionUndefined)

	var kopts []state.WatchKindOption

	switch p.Opt {
	case "contents":
		kopts = append(kopts, state.WithBootstrapContents(true))
	case "bookmark":
		kopts = append(kopts, state.WithBootstrapBookmark(true))
	case "tail":
		kopts = append(kopts, state.WithKindTailEvents(3))
	case "label":
		kopts = append(kopts, state.WithBootstrapContents(true), state.WatchWithLabelQuery(resource.LabelExists("k1")))
	case "idquery":
		kopts = append(kopts, state.WithBootstrapContents(true), state.WatchWithIDQuery(resource.IDRegexpMatch(regexp.MustCompile("^[ac]$"))))
	case "label-id":
		kopts = append(kopts, state.WithBootstrapBookmark(true), state.WatchWithLabelQuery(resource.LabelExists("k1")),
			state.WatchWithIDQuery(resource.IDRegexpMatch(regexp.MustCompile("^[ab]$"))))
	}

	switch p.Mode {
	case "single":
		ch := make(chan state.Event)

		var wo []state.WatchOption
		if p.Opt == "tail" {
			wo = append(wo, state.WithTailEvents(3))
		}

		if err := st.Watch(ctx, resource.NewMetadata("n1", "TA", "a", resource.VersionUndefined), ch, wo...); err != nil {
			return err
		}

		go func() {
			for {
				select {
				case <-ctx.Done():
					return
				case e := <-ch:
					c.add(e)
				}
			}
		}()
	case "kind":
		ch := make(chan state.Event)

		if err := st.WatchKind(ctx, kind, ch, kopts...); err != nil {
			return err
		}

		go func() {
			for {
				select {
				case <-ctx.Done():
					return
				case e := <-ch:
					c.add(e)
				}
			}
		}()
	case "agg":
		ch := make(chan []state.Event)

		if err := st.WatchKindAggregated(ctx, kind, ch, kopts...); err != nil {
			return err
		}

		go func() {
			for {
				select {
				case <-ctx.Done():
					return
				case e := <-ch:
					c.add(e...)
				}
			}
		}()
	}

	return nil
}

func evKey(e state.Event) string {
	s := e.Type.String()

	if e.Resource != nil && (e.Type == state.Created || e.Type == state.Updated || (e.Type == state.Destroyed && len(e.Bookmark) > 0)) {
		s += "(" + hres.Describe(e.Resource) + ")"
	} else if e.Resource != nil {
		s += "(" + e.Resource.Metadata().ID() + ")"
	}

	if e.Old != nil {
		s += " old=" + hres.Describe(e.Old)
	}

	return s + fmt.Sprintf(" bm=%x", []byte(e.Bookmark))
}

func apply(ctx context.Context, st state.State, op WOp, n int) {
	ptr := resource.NewMetadata("n1", "TA", ids[op.ID], resource.VersionUndefined)

	switch op.K {
	case "create":
		_ = st.Create(ctx, hres.New("n1", "TA", ids[op.ID], "v"+strconv.Itoa(n)))
	case "update":
		_, _ = st.UpdateWithConflicts(ctx, ptr, func(r resource.Resource) error {
			r.(*hres.R).SetValue("v" + strconv.Itoa(n)) //nolint:forcetypeassert

			return nil
		})
	case "label":
		_, _ = st.UpdateWithConflicts(ctx, ptr, func(r resource.Resource) error {
			if _, ok := r.Metadata().Labels().Get("k1"); ok {
				r.Metadata().Labels().Delete("k1")
			} else {
				r.Metadata().Labels().Set("k1", "x")
			}

			return nil
		})
	case "destroy":
		_ = st.Destroy(ctx, ptr)
	}
}

//nolint:gocyclo,gocognit,cyclop
func runBubble(p Plan) (v hk.Verdict) {
	ctx, cancel := context.WithCancel(context.Background())

	core := sim.NewNamespaced(inmem.WithHistoryInitialCapacity(p.Cap[0]), inmem.WithHistoryMaxCapacity(p.Cap[1]), inmem.WithHistoryGap(p.Cap[2]))
	st := state.WrapCore(core)

	var srvCore state.CoreState = core
	if len(p.SrvErr) == 2 {
		srvCore = &srvErrState{CoreState: core, nth: p.SrvErr[0], after: p.SrvErr[1]}
	}

	tr := &transport{handler: server.NewState(srvCore), plan: p, start: time.Now(), failOpens: map[int]bool{}}
	for _, f := range p.FailOpens {
		tr.failOpens[f] = true
	}

	tr.up()

	conn, err := grpc.NewClient("passthrough:///bufnet",
		grpc.WithContextDialer(tr.dial), grpc.WithTransportCredentials(insecure.NewCredentials()), grpc.WithStreamInterceptor(tr.intercept))
	if err != nil {
		cancel()
		v.Failf("harness: %v", err)

		return v
	}

	var aopts []client.AdapterOption
	if p.NoRetry {
		aopts = append(aopts, client.WithDisableWatchRetry())
	}

	adapter := client.NewAdapter(v1alpha1.NewStateClient(conn), aopts...)

	defer func() {
		cancel()
		_ = conn.Close()
		tr.down()
		synctest.Wait()
	}()

	for i, op := range p.Pre {
		apply(ctx, st, op, 1000+i)
	}

	ref, rem := &collector{}, &collector{}

	if err := startWatch(ctx, core, p, ref); err != nil {
		v.Failf("harness: reference watch: %v", err)

		return v
	}

	if err := startWatch(ctx, adapter, p, rem); err != nil {
		// the very first message (ready marker) may be hit by a fault: establishment then fails loudly
		hit := false

		for _, f := range p.Faults {
			if f.Stream == 0 && f.Msg == 0 {
				hit = true
			}
		}

		if !hit && !tr.failOpens[0] {
			v.Failf("remote watch could not be established: %v", err)
		}

		v.Label("establishment-failed-loudly")

		return v
	}

	// timeline of writes and outages
	type ev struct {
		at   int
		kind int // 0 write 1 down 2 up
		idx  int
	}

	var tl []ev

	for i, op := range p.Script {
		tl = append(tl, ev{op.AtMs, 0, i})
	}

	for _, o := range p.Outages {
		tl = append(tl, ev{o.AtMs, 1, 0}, ev{o.AtMs + o.ForMs, 2, 0})
	}

	sort.SliceStable(tl, func(i, j int) bool { return tl[i].at < tl[j].at })

	var writeTimes []time.Duration

	down := 0

	for _, e := range tl {
		if d := time.Duration(e.at)*time.Millisecond - time.Since(tr.start); d > 0 {
			time.Sleep(d)
		}

		switch e.kind {
		case 0:
			before := len(ref.snapshot())

			apply(ctx, st, p.Script[e.idx], e.idx)
			synctest.Wait()

			if len(ref.snapshot()) > before {
				writeTimes = append(writeTimes, time.Since(tr.start))
			}
		case 1:
			down++
			tr.down()
		case 2:
			down--
			if down == 0 {
				tr.up()
			}
		}
	}

	if down > 0 {
		tr.up()
	}

	// quiescence: longer than any retry backoff
	time.Sleep(20 * time.Minute)
	synctest.Wait()

	want, got := ref.snapshot(), rem.snapshot()

	errored := len(got) > 0 && got[len(got)-1].Type == state.Errored

	// the termination signal ends the stream: nothing but further Errored events may follow it (a watch the server ended
	// with Errored reports the loss of its transport as a second Errored: the statement does not forbid repeating it)
	body := got
	for errored && len(body) > 0 && body[len(body)-1].Type == state.Errored {
		body = body[:len(body)-1]
	}

	for i, e := range body {
		if e.Type == state.Errored {
			v.Failf("Errored event at position %d of %d is followed by other events: %s", i, len(got), descAll(got))

			return v
		}
	}

	if len(body) > len(want) {
		v.Failf("the remote watch delivered %d events, the server's log has %d for it (duplicates or re-delivered bootstrap): remote %s reference %s", len(body), len(want), descAll(body), descAll(want))

		return v
	}

	for i := range body {
		if evKey(body[i]) != evKey(want[i]) {
			v.Failf("event %d differs (gap, duplicate or reorder): remote %s, reference %s; remote stream %s", i, evKey(body[i]), evKey(want[i]), descAll(body))

			return v
		}
	}

	if !errored && len(body) != len(want) {
		v.Failf("the remote watch silently stopped: %d of %d events delivered and no Errored event; faults=%+v failopens=%v outages=%+v injected=%v reopened=%v", len(body), len(want), p.Faults, p.FailOpens, p.Outages, tr.injected, tr.reopened)

		return v
	}

	boots := 0

	for _, e := range got {
		if e.Type == state.Bootstrapped {
			boots++
		}
	}

	if boots > 1 {
		v.Failf("Bootstrapped delivered %d times", boots)
	}

	// labels
	tr.mu.Lock()
	resumed := len(tr.reopened)
	injected := append([]time.Duration(nil), tr.injected...)
	reopened := append([]time.Duration(nil), tr.reopened...)
	tr.mu.Unlock()

	if resumed > 0 && !errored {
		v.Label("resumed")

		// a commit during an outage: between an injected failure (or server stop) and the following reopen
		for _, r := range reopened {
			var from time.Duration = -1

			for _, f := range injected {
				if f <= r && f > from {
					from = f
				}
			}

			for _, o := range p.Outages {
				if f := time.Duration(o.AtMs) * time.Millisecond; f <= r && f > from {
					from = f
				}
			}

			for _, wt := range writeTimes {
				if from >= 0 && wt > from && wt <= r {
					v.NonTrivial = true

					v.Label("resumed-after-commits-during-outage")
				}
			}
		}
	}

	if errored {
		v.Label("terminated-with-errored")

		if p.NoRetry {
			v.Label("retries-disabled")
		}
	}

	v.Outcome = fmt.Sprintf("%d/%d events, errored=%v, %d resumptions", len(body), len(want), errored, resumed)

	return v
}

func descAll(e []state.Event) []string {
	out := make([]string, 0, len(e))
	for _, x := range e {
		out = append(out, evKey(x))
	}

	return out
}

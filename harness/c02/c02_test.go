package c02

import (
	"testing"

	"verifharness/hk"
)

func TestMain(m *testing.M) { hk.Main(m, "C02") }

func TestS2(t *testing.T) {
	hk.RunSub(t, hk.Sub[Plan]{Name: "s2/schedules", Quick: 3000, Thorough: 30000, Gen: Gen, Run: Run, Journal: true})
}

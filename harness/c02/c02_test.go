package c02

import (
	"testing"

	"verifharness/hk"
)

func TestMain(m *testing.M) { hk.Main(m, "C02") }

func TestS2(t *testing.T) {
	hk.RunSub(t, hk.Sub[Plan]{Name: "s2/schedules", Quick: 3000, Thorough: 30000, Gen: Gen, Run: Run, Journal: true})
}

// TestS4 is the stress variant: real goroutines, watches opened while writes are in flight.
func TestS4(t *testing.T) {
	for _, impl := range []string{"inmem", "backed-mem", "backed-faulty", "bolt", "grpc"} {
		q, th := 300, 2000
		if impl == "grpc" || impl == "bolt" {
			q, th = 60, 500
		}

		hk.RunSub(t, hk.Sub[SPlan]{Name: "s4/" + impl, Quick: q, Thorough: th, Gen: GenS(impl), Run: RunS})
	}
}

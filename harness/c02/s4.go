package c02

import (
	"context"
	"errors"
	"fmt"
	"strings"
	"sync"
	"sync/atomic"
	"time"

	"pgregory.net/rapid"

	"github.com/cosi-project/runtime/pkg/resource"
	"github.com/cosi-project/runtime/pkg/state"
	"github.com/cosi-project/runtime/pkg/state/impl/inmem"

	"verifharness/hk"
	"verifharness/hres"
	"verifharness/sim"
)

// Stress variant (S4): real goroutines. One writer per resource (so the commit log of each resource is known exactly),
// watchers that keep opening single-resource and kind watches while the writers run. A stream must be a contiguous
// piece of the resource's commit log that starts exactly at the snapshot it delivered first. The Go scheduler picks
// the interleavings *inside* store calls, which the gate scheduler of the S2 variant cannot reach.

// SWatcher is a watcher program of the stress variant.
type SWatcher struct {
	Kind  int   `json:"kind"`  // 0 single resource, 1 kind with bootstrap contents
	Res   int   `json:"res"`   // single: which resource
	Reads []int `json:"reads"` // events to consume before the watch is re-opened (cycled)
	Yield int   `json:"yield"` // scheduler yields before each open
}

// SPlan is a stress plan.
type SPlan struct {
	Impl     string     `json:"impl"`              // an implementation name of sim.Build, or "backed-faulty": in-memory-backed whose Put/Destroy fail now and then
	FailMod  int        `json:"failmod,omitempty"` // backed-faulty: every FailMod-th backing store write fails
	Writers  [][]int    `json:"writers"`           // per resource: 0 update (or create when absent), 1 destroy (or create when absent), 2 yield
	Watchers []SWatcher `json:"watchers"`
}

// GenS draws a stress plan.
func GenS(impl string) func(t *rapid.T) SPlan {
	return func(t *rapid.T) SPlan {
		p := SPlan{Impl: impl}

		if impl == "backed-faulty" {
			p.FailMod = rapid.IntRange(2, 7).Draw(t, "failmod")
		}

		nres := rapid.IntRange(1, 3).Draw(t, "nres")
		for i := 0; i < nres; i++ {
			p.Writers = append(p.Writers, rapid.SliceOfN(rapid.SampledFrom([]int{0, 0, 0, 0, 1, 2}), 20, 150).Draw(t, "wprog"))
		}

		nw := rapid.IntRange(2, 6).Draw(t, "nwatchers")
		for i := 0; i < nw; i++ {
			p.Watchers = append(p.Watchers, SWatcher{
				Kind:  rapid.SampledFrom([]int{0, 0, 1}).Draw(t, "wkind"),
				Res:   rapid.IntRange(0, nres-1).Draw(t, "wres"),
				Reads: rapid.SliceOfN(rapid.SampledFrom([]int{1, 1, 2, 3, 8, 30}), 1, 6).Draw(t, "reads"),
				Yield: rapid.IntRange(0, 3).Draw(t, "yield"),
			})
		}

		return p
	}
}

var errFaultyBacking = errors.New("injected backing store failure")

// faultyBacking fails every mod-th write (a rejected write must leave no trace, neither in reads nor in watch streams).
type faultyBacking struct {
	*sim.MemBacking
	mod int64
	n   atomic.Int64
}

func (b *faultyBacking) Put(ctx context.Context, typ resource.Type, r resource.Resource) error {
	if b.n.Add(1)%b.mod == 0 {
		return errFaultyBacking
	}

	return b.MemBacking.Put(ctx, typ, r)
}

func (b *faultyBacking) Destroy(ctx context.Context, typ resource.Type, p resource.Pointer) error {
	if b.n.Add(1)%b.mod == 0 {
		return errFaultyBacking
	}

	return b.MemBacking.Destroy(ctx, typ, p)
}

// resync re-reads the writer's resource after a rejected write (the writer is the only party writing it).
func resync(ctx context.Context, st state.CoreState, id string, harness *atomic.Value) *hres.R {
	r, err := st.Get(ctx, resource.NewMetadata("n1", "TA", id, resource.VersionUndefined))
	if err != nil {
		if !state.IsNotFoundError(err) {
			harness.Store(fmt.Sprintf("resync of %s: %v", id, err))
		}

		return nil
	}

	hr, _ := r.(*hres.R) //nolint:errcheck

	return hr
}

type sEntry struct {
	Kind state.EventType
	Val  string
	Ver  string
}

type sEvent struct {
	Type   state.EventType
	ID     string
	Val    string
	Ver    string
	OldVal string
}

type sSegment struct {
	watcher int
	kind    int
	res     int
	lo, hi  []int64 // per resource: commits acknowledged before the open / started before the open returned
	evs     []sEvent
	cut     bool // reading was cut short because the writers had finished (the stream may be incomplete)
}

// RunS executes the stress plan.
//
//nolint:gocyclo,gocognit,cyclop,maintidx
func RunS(p SPlan) (v hk.Verdict) {
	var st state.CoreState

	if p.Impl == "backed-faulty" {
		st = inmem.NewStateWithOptions(inmem.WithBackingStore(&faultyBacking{MemBacking: sim.NewMemBacking(), mod: int64(p.FailMod)}))("n1")
	} else {
		impl, err := sim.Build(p.Impl)
		if err != nil {
			v.Failf("harness: %v", err)

			return v
		}

		defer impl.Close()

		st = impl.State
	}

	ctx, cancel := context.WithCancel(context.Background())

	defer cancel()

	nres := len(p.Writers)
	logs := make([][]sEntry, nres)
	started := make([]atomic.Int64, nres)
	acked := make([]atomic.Int64, nres)

	var (
		wg, wwg  sync.WaitGroup
		harness  atomic.Value
		segMu    sync.Mutex
		segments []sSegment
	)

	writersDone := make(chan struct{})
	start := make(chan struct{})

	for ri, prog := range p.Writers {
		wwg.Add(1)

		go func() {
			defer wwg.Done()

			id := hres.IDs[ri]

			var cur *hres.R

			<-start

			for n, op := range prog {
				if op == 2 {
					time.Sleep(0)

					continue
				}

				val := fmt.Sprintf("r%d.%d", ri, n)

				started[ri].Add(1)

				var e sEntry

				switch {
				case cur == nil:
					r := hres.New("n1", "TA", id, val)
					if err := st.Create(ctx, r); err != nil {
						if errors.Is(err, errFaultyBacking) {
							cur = resync(ctx, st, id, &harness)

							continue
						}

						harness.Store(fmt.Sprintf("writer %d create: %v", ri, err))

						return
					}

					cur = r
					e = sEntry{Kind: state.Created, Val: val, Ver: r.Metadata().Version().String()}
				case op == 1:
					if err := st.Destroy(ctx, cur.Metadata()); err != nil {
						if errors.Is(err, errFaultyBacking) {
							cur = resync(ctx, st, id, &harness)

							continue
						}

						harness.Store(fmt.Sprintf("writer %d destroy: %v", ri, err))

						return
					}

					e = sEntry{Kind: state.Destroyed, Val: cur.Value(), Ver: cur.Metadata().Version().String()}
					cur = nil
				default:
					r := cur.DeepCopy().(*hres.R) //nolint:forcetypeassert,errcheck
					r.SetValue(val)

					if err := st.Update(ctx, r); err != nil {
						if errors.Is(err, errFaultyBacking) {
							cur = resync(ctx, st, id, &harness)

							continue
						}

						harness.Store(fmt.Sprintf("writer %d update: %v", ri, err))

						return
					}

					cur = r
					e = sEntry{Kind: state.Updated, Val: val, Ver: r.Metadata().Version().String()}
				}

				logs[ri] = append(logs[ri], e)

				acked[ri].Add(1)
			}
		}()
	}

	conv := func(ev state.Event) sEvent {
		out := sEvent{Type: ev.Type}

		if ev.Resource != nil {
			out.ID = ev.Resource.Metadata().ID()
			out.Val = hres.Value(ev.Resource)
			out.Ver = ev.Resource.Metadata().Version().String()
		}

		if ev.Old != nil {
			out.OldVal = hres.Value(ev.Old)
		}

		if ev.Type == state.Errored {
			out.Val = fmt.Sprint(ev.Error)
		}

		return out
	}

	evLimit := 64

	for _, prog := range p.Writers {
		evLimit += 4 * len(prog)
	}

	for wi, wp := range p.Watchers {
		wg.Add(1)

		go func() {
			defer wg.Done()

			<-start

			for round := 0; ; round++ {
				select {
				case <-writersDone:
					return
				default:
				}

				for y := 0; y < wp.Yield; y++ {
					time.Sleep(0)
				}

				seg := sSegment{watcher: wi, kind: wp.Kind, res: wp.Res, lo: make([]int64, nres), hi: make([]int64, nres)}
				wctx, wcancel := context.WithCancel(ctx)
				ch := make(chan state.Event)

				for r := range nres {
					seg.lo[r] = acked[r].Load()
				}

				var err error

				if wp.Kind == 0 {
					err = st.Watch(wctx, resource.NewMetadata("n1", "TA", hres.IDs[wp.Res], resource.VersionUndefined), ch)
				} else {
					err = st.WatchKind(wctx, resource.NewMetadata("n1", "TA", "", resource.VersionUndefined), ch, state.WithBootstrapContents(true))
				}

				if err != nil {
					wcancel()
					harness.Store(fmt.Sprintf("watcher %d open: %v", wi, err))

					return
				}

				want := wp.Reads[round%len(wp.Reads)]
				drained := false

				bootSeen := wp.Kind == 0

				for (len(seg.evs) < want+2 || !bootSeen) && !drained {
					select {
					case ev := <-ch:
						if len(seg.evs) == 0 {
							// the snapshot was taken before its first event was handed over
							for r := range nres {
								seg.hi[r] = started[r].Load()
							}
						}

						seg.evs = append(seg.evs, conv(ev))

						if ev.Type == state.Bootstrapped {
							bootSeen = true
						}

						if ev.Type == state.Errored {
							drained = true
						}
					case <-writersDone:
						seg.cut = true
						// drain what is left, then stop
						for !drained {
							select {
							case ev := <-ch:
								if len(seg.evs) == 0 {
									for r := range nres {
										seg.hi[r] = started[r].Load()
									}
								}

								seg.evs = append(seg.evs, conv(ev))

								// a stream can hold the snapshot plus one event per commit; far beyond that it is fed
								// from something other than the writers, which are done (reported below as events
								// without a commit behind them)
								if len(seg.evs) > evLimit {
									drained = true
									seg.cut = false
								}
							case <-time.After(20 * time.Millisecond):
								drained = true
							}
						}
					}
				}

				wcancel()

				segMu.Lock()
				segments = append(segments, seg)
				segMu.Unlock()
			}
		}()
	}

	close(start)
	wwg.Wait()
	close(writersDone)
	wg.Wait()

	if h := harness.Load(); h != nil {
		v.Failf("harness: %v", h)

		return v
	}

	// state of resource r after its first i+1 commits: present?
	present := func(r, i int) bool { return i >= 0 && logs[r][i].Kind != state.Destroyed }

	// checkChain verifies that evs (events of resource r after the snapshot) equal logs[r][i+1:...]
	checkChain := func(r, i int, evs []sEvent) string {
		for k, e := range evs {
			j := i + 1 + k
			if j >= len(logs[r]) {
				return fmt.Sprintf("event #%d %+v has no commit behind it (the resource has %d commits)", k, e, len(logs[r]))
			}

			l := logs[r][j]
			if e.Type != l.Kind || e.Val != l.Val || e.Ver != l.Ver {
				return fmt.Sprintf("event #%d after the snapshot is %+v but the next commit (#%d) is %+v: the stream is not the change log following its snapshot (duplicate, gap or reorder)", k, e, j, l)
			}

			if e.Type == state.Updated && e.OldVal != logs[r][j-1].Val {
				return fmt.Sprintf("event #%d %+v carries old value %q, the previous commit wrote %q", k, e, e.OldVal, logs[r][j-1].Val)
			}
		}

		return ""
	}

	overlapping := 0

	for _, seg := range segments {
		desc := fmt.Sprintf("watcher %d (%s) on %s", seg.watcher, []string{"Watch", "WatchKind+bootstrap"}[seg.kind], p.Impl)

		// split into snapshot and changes per resource
		snap := map[int]*sEvent{}
		changes := map[int][]sEvent{}
		errored := false

		var rs []int

		if seg.kind == 0 {
			rs = []int{seg.res}

			if len(seg.evs) == 0 {
				if seg.cut {
					continue
				}

				v.Failf("%s delivered no initial event", desc)

				continue
			}

			if seg.evs[0].Type == state.Errored {
				v.Label("overrun")

				continue
			}

			first := seg.evs[0]
			if first.Type == state.Created {
				snap[seg.res] = &first
			} else if first.Type != state.Destroyed {
				v.Failf("%s: initial event is %+v", desc, first)

				continue
			}

			for _, e := range seg.evs[1:] {
				if e.Type == state.Errored {
					errored = true

					break
				}

				changes[seg.res] = append(changes[seg.res], e)
			}
		} else {
			for r := range nres {
				rs = append(rs, r)
			}

			boot := false

			for _, e := range seg.evs {
				if e.Type == state.Errored {
					errored = true

					break
				}

				if e.Type == state.Bootstrapped {
					boot = true

					continue
				}

				r := -1

				for ri := range nres {
					if hres.IDs[ri] == e.ID {
						r = ri
					}
				}

				if r < 0 {
					v.Failf("%s: event for an unknown resource %+v", desc, e)

					continue
				}

				if !boot {
					if e.Type != state.Created || snap[r] != nil {
						v.Failf("%s: bootstrap contents contain %+v", desc, e)
					}

					ev := e
					snap[r] = &ev
				} else {
					changes[r] = append(changes[r], e)
				}
			}

			if !boot && !errored {
				if seg.cut {
					// the run ended while the bootstrap contents were still being handed over
					continue
				}

				v.Failf("%s: no Bootstrapped event among %d events", desc, len(seg.evs))

				continue
			}
		}

		if errored {
			v.Label("overrun")
		}

		for _, r := range rs {
			lo, hi := int(seg.lo[r])-1, int(seg.hi[r])-1 // snapshot index range (index of the last commit reflected)
			if hi >= len(logs[r]) {
				hi = len(logs[r]) - 1
			}

			if hi > lo {
				overlapping++
			}

			var why []string

			ok := false

			for i := lo; i <= hi && !ok; i++ {
				if s := snap[r]; s != nil {
					if !present(r, i) || logs[r][i].Val != s.Val || logs[r][i].Ver != s.Ver {
						continue
					}
				} else if present(r, i) {
					continue
				}

				if msg := checkChain(r, i, changes[r]); msg != "" {
					why = append(why, fmt.Sprintf("snapshot = state after commit #%d: %s", i, msg))

					continue
				}

				ok = true
			}

			if !ok {
				sn := "<absent>"
				if snap[r] != nil {
					sn = fmt.Sprintf("%+v", *snap[r])
				}

				if len(why) == 0 {
					why = []string{fmt.Sprintf("no state of the resource between commit #%d and #%d (those that can have been current during the call) equals the snapshot", lo, hi)}
				}

				v.Failf("%s: resource %s: snapshot %s followed by %d changes is not a piece of its commit log: %s", desc, hres.IDs[r], sn, len(changes[r]), strings.Join(why, "; "))
			}
		}
	}

	if overlapping > 0 {
		v.NonTrivial = true

		v.Label("watch-opened-during-writes")
	}

	v.Outcome = fmt.Sprintf("%d watch segments, %d opened while a write was in flight", len(segments), overlapping)

	return v
}

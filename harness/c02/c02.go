// Package c02 checks C02: watch streams are exact, ordered change logs or fail loudly.
package c02

import (
	"context"
	"fmt"
	"strconv"
	"testing"
	"testing/synctest"

	"pgregory.net/rapid"

	"github.com/cosi-project/runtime/pkg/resource"
	"github.com/cosi-project/runtime/pkg/state"
	"github.com/cosi-project/runtime/pkg/state/impl/inmem"

	"verifharness/hk"
	"verifharness/hres"
	"verifharness/model"
	"verifharness/sim"
)

// WOp is a writer operation.
type WOp struct {
	K   string `json:"k"` // create update destroy
	Typ int    `json:"typ"`
	ID  int    `json:"id"`
}

// WSpec describes a watcher.
type WSpec struct {
	Kind string `json:"kind"` // single kind agg
	Typ  int    `json:"typ"`
	ID   int    `json:"id"`
	Boot int    `json:"boot"` // 0 plain 1 bootstrap contents 2 bootstrap bookmark 3 both (kind/agg only)
}

// Plan is a C02 plan.
type Plan struct {
	Init int `json:"init"`
	Max  int `json:"max"`
	Gap  int `json:"gap"`
	// CfgStyle: how the options reach the effective configuration (see historyOptions)
	CfgStyle int     `json:"cfgstyle,omitempty"`
	Types    int     `json:"types"`
	IDs      int     `json:"ids"`
	Writers  [][]WOp `json:"writers"`
	Watchers []WSpec `json:"watchers"`
	Choices  []int   `json:"choices"`
	// WatcherBias: a choice c with c%100 < bias prefers non-deliver gates (stalls consumers).
	Stall int `json:"stall"`
}

var (
	typs = []string{"TA", "TB"}
	ids  = hres.IDs
)

// Gen draws a plan.
func Gen(t *rapid.T) Plan {
	p := Plan{}

	if rapid.IntRange(0, 9).Draw(t, "defaultcfg") == 0 {
		p.Init, p.Max, p.Gap = 100, 100, 5
	} else {
		p.Init = rapid.IntRange(1, 8).Draw(t, "init")
		p.Max = rapid.IntRange(p.Init, 4*p.Init).Draw(t, "max")
		p.Gap = rapid.IntRange(0, p.Init-1).Draw(t, "gap")

		if rapid.IntRange(0, 3).Draw(t, "cfgalt") == 0 {
			p.Max = p.Init
			p.CfgStyle = rapid.IntRange(1, 2).Draw(t, "cfgstyle")
		}

		// larger buffers with a tiny or zero gap (a gap of 0 is a legal setting, not "unset")
		if rapid.IntRange(0, 5).Draw(t, "biggap0") == 0 {
			p.Init = rapid.SampledFrom([]int{20, 24, 40}).Draw(t, "biginit")
			p.Max = p.Init * rapid.IntRange(1, 2).Draw(t, "bigmaxmul")
			p.Gap = rapid.IntRange(0, 2).Draw(t, "biggap")
			p.CfgStyle = 0
		}
	}

	p.Types = rapid.IntRange(1, 2).Draw(t, "types")
	p.IDs = rapid.IntRange(1, 4).Draw(t, "ids")

	nw := rapid.IntRange(1, 3).Draw(t, "nwriters")
	for i := 0; i < nw; i++ {
		p.Writers = append(p.Writers, rapid.SliceOfN(rapid.Custom(func(t *rapid.T) WOp {
			return WOp{
				K:   rapid.SampledFrom([]string{"create", "create", "update", "update", "update", "destroy"}).Draw(t, "k"),
				Typ: rapid.IntRange(0, p.Types-1).Draw(t, "typ"),
				ID:  rapid.IntRange(0, p.IDs-1).Draw(t, "id"),
			}
		}), 1, 25).Draw(t, "wops"))
	}

	p.Watchers = rapid.SliceOfN(rapid.Custom(func(t *rapid.T) WSpec {
		return WSpec{
			Kind: rapid.SampledFrom([]string{"single", "kind", "agg"}).Draw(t, "wkind"),
			Typ:  rapid.IntRange(0, p.Types-1).Draw(t, "wtyp"),
			ID:   rapid.IntRange(0, p.IDs-1).Draw(t, "wid"),
			Boot: rapid.IntRange(0, 3).Draw(t, "boot"),
		}
	}), 1, 4).Draw(t, "watchers")

	p.Stall = rapid.SampledFrom([]int{0, 0, 30, 60, 90}).Draw(t, "stall")
	p.Choices = rapid.SliceOfN(rapid.IntRange(0, 999), 20, 200).Draw(t, "choices")

	return p
}

type watcher struct {
	spec     WSpec
	name     string
	col      [2]string // ns, typ
	started  bool
	startErr error
	p0       int                   // number of commits in the collection when the watch was established
	snap     map[string]*model.Res // collection contents at start
	events   []state.Event         // flattened events received by the consumer
	batches  []int                 // batch sizes (agg)
	maxLag   int
	handed   int // events handed over at the deliver gate (flattened)
}

// Run executes a plan.
func Run(p Plan) (v hk.Verdict) {
	synctest.Test(hk.T(), func(*testing.T) { v = runBubble(p) })

	return v
}

func runBubble(p Plan) (v hk.Verdict) {
	ctx, cancel := context.WithCancel(context.Background())

	st := sim.NewNamespaced(historyOptions(p.Init, p.Max, p.Gap, p.CfgStyle)...)
	s := sim.NewSched(st)

	// per-collection commit positions
	colLog := map[[2]string][]int{} // collection -> indexes into global commits
	s.OnCommit = func(idx int, c model.Commit) {
		k := [2]string{c.New.NS, c.New.Typ}
		colLog[k] = append(colLog[k], idx)
	}

	done := make(chan struct{}, len(p.Writers)+len(p.Watchers))

	// writers
	for wi, prog := range p.Writers {
		px := s.Proxy("w" + strconv.Itoa(wi))

		go func() {
			defer func() { done <- struct{}{} }()

			for oi, op := range prog {
				ptr := resource.NewMetadata("n1", typs[op.Typ], ids[op.ID], resource.VersionUndefined)

				switch op.K {
				case "create":
					_ = px.Create(ctx, hres.New("n1", typs[op.Typ], ids[op.ID], fmt.Sprintf("w%d.%d", wi, oi)))
				case "update":
					r, err := px.Get(ctx, ptr)
					if err != nil {
						continue
					}

					r.(*hres.R).SetValue(fmt.Sprintf("w%d.%d", wi, oi))
					_ = px.Update(ctx, r)
				case "destroy":
					_ = px.Destroy(ctx, ptr)
				}

				if ctx.Err() != nil {
					return
				}
			}
		}()
	}

	// watchers
	ws := make([]*watcher, len(p.Watchers))

	for i, spec := range p.Watchers {
		w := &watcher{spec: spec, name: "x" + strconv.Itoa(i), col: [2]string{"n1", typs[spec.Typ]}}
		ws[i] = w
		px := s.Proxy(w.name)

		go func() {
			defer func() { done <- struct{}{} }()

			var kopts []state.WatchKindOption

			if spec.Boot == 1 || spec.Boot == 3 {
				kopts = append(kopts, state.WithBootstrapContents(true))
			}

			if spec.Boot == 2 || spec.Boot == 3 {
				kopts = append(kopts, state.WithBootstrapBookmark(true))
			}

			switch spec.Kind {
			case "single":
				ch := make(chan state.Event)
				w.startErr = px.Watch(ctx, resource.NewMetadata("n1", typs[spec.Typ], ids[spec.ID], resource.VersionUndefined), ch)
				w.started = true

				if w.startErr != nil {
					return
				}

				for {
					select {
					case <-ctx.Done():
						return
					case ev := <-ch:
						w.events = append(w.events, ev)
					}
				}
			case "kind":
				ch := make(chan state.Event)
				w.startErr = px.WatchKind(ctx, resource.NewMetadata("n1", typs[spec.Typ], "", resource.VersionUndefined), ch, kopts...)
				w.started = true

				if w.startErr != nil {
					return
				}

				for {
					select {
					case <-ctx.Done():
						return
					case ev := <-ch:
						w.events = append(w.events, ev)
					}
				}
			case "agg":
				ch := make(chan []state.Event)
				w.startErr = px.WatchKindAggregated(ctx, resource.NewMetadata("n1", typs[spec.Typ], "", resource.VersionUndefined), ch, kopts...)
				w.started = true

				if w.startErr != nil {
					return
				}

				for {
					select {
					case <-ctx.Done():
						return
					case evs := <-ch:
						w.events = append(w.events, evs...)
						w.batches = append(w.batches, len(evs))
					}
				}
			}
		}()
	}

	byName := map[string]*watcher{}
	for _, w := range ws {
		byName[w.name] = w
	}

	wrapped, grew := false, false

	// the scheduling loop: measure lag bounds at every boundary, then release one gate
	step := 0

	release := func(g *sim.Gate) {
		// bookkeeping for watch establishment and hand-overs
		if w := byName[g.Actor]; w != nil {
			switch g.Op {
			case "Watch", "WatchKind", "WatchKindAggregated":
				w.p0 = len(colLog[w.col])
				w.snap = map[string]*model.Res{}

				for k, r := range s.Cur {
					if k.NS == w.col[0] && k.Typ == w.col[1] {
						w.snap[k.ID] = r.Clone()
					}
				}
			}
		}

		s.Release(g)
	}

	measure := func(gates []*sim.Gate) {
		for _, w := range ws {
			if w.startErr != nil || w.snap == nil {
				continue
			}

			wp := len(colLog[w.col])

			if wp > p.Init {
				wrapped = true
			}

			if wp >= p.Init && p.Max > p.Init && wp > p.Init {
				grew = true
			}

			w.noteHandover(s)

			for _, g := range gates {
				if g.Actor == w.name && g.Op == "deliver" {
					// the event(s) held at the gate were read no later than position posLower
					lag := wp - w.posLowerBound(colLog, s)
					if lag > w.maxLag {
						w.maxLag = lag
					}
				}
			}
		}
	}

	for ; step < len(p.Choices); step++ {
		synctest.Wait()

		gates := s.Enabled()
		if len(gates) == 0 {
			break
		}

		measure(gates)

		c := p.Choices[step]
		pick := gates

		if c%100 < p.Stall {
			var nd []*sim.Gate

			for _, g := range gates {
				if g.Op != "deliver" {
					nd = append(nd, g)
				}
			}

			if len(nd) > 0 {
				pick = nd
			}
		}

		g := pick[(c/100)%len(pick)]
		release(g)
	}

	// drain phase: let writers finish? No - only hand-overs, so that every live watcher catches up
	drainBound := (len(s.Commits) + 12) * (len(ws) + 1) * 2

	for i := 0; ; i++ {
		if i > drainBound {
			v.Failf("watchers keep receiving events although no write happens: %d hand-overs during the drain phase for %d commits", i, len(s.Commits))

			break
		}

		synctest.Wait()

		gates := s.Enabled()

		var dl []*sim.Gate

		for _, g := range gates {
			if g.Op == "deliver" {
				dl = append(dl, g)
			}
		}

		if len(dl) == 0 {
			break
		}

		measure(gates)
		release(dl[0])
	}

	synctest.Wait()

	commits, _, hands := s.Snapshot()

	// oracle
	for _, w := range ws {
		if !w.started || w.snap == nil {
			continue
		}

		if w.startErr != nil {
			v.Failf("watcher %s %+v: watch call failed: %v", w.name, w.spec, w.startErr)

			break
		}

		if f := w.check(p, commits, colLog[w.col], hands); f != "" {
			v.Failf("watcher %s %+v (p0=%d, maxLag=%d, init=%d): %s", w.name, w.spec, w.p0, w.maxLag, p.Init, f)

			break
		}

		if w.p0 > 0 && w.p0 < len(colLog[w.col]) {
			v.Label("mid-start")

			v.NonTrivial = true
		}

		if w.maxLag >= p.Init-1 && len(colLog[w.col]) > 0 {
			v.Label("lag>=cap-1")

			v.NonTrivial = true
		}

		if n := len(w.events); n > 0 && w.events[n-1].Type == state.Errored {
			v.Label("errored")
		}
	}

	if wrapped {
		v.Label("wrap")

		v.NonTrivial = true
	}

	if grew {
		v.Label("grow")

		v.NonTrivial = true
	}

	v.Outcome = fmt.Sprintf("%d commits, %d steps", len(commits), step)

	cancel()
	s.Shutdown()
	synctest.Wait()

	return v
}

// posLowerBound: a lower bound of the inmem reader position while events are held at the gate.
func (w *watcher) posLowerBound(colLog map[[2]string][]int, s *sim.Sched) int {
	// number of post-initial events already handed over (flattened) gives the position of the held one
	post := w.handed - w.initialCount()
	if post < 0 {
		return w.p0
	}

	if w.spec.Kind == "single" {
		// the post-th commit for this id after p0: find its position
		n := 0

		for pos := w.p0; pos < len(colLog[w.col]); pos++ {
			c := s.Commits[colLog[w.col][pos]]
			if c.New.ID == ids[w.spec.ID] {
				if n == post {
					return pos + 1
				}

				n++
			}
		}

		return w.p0
	}

	return w.p0 + post + 1
}

func (w *watcher) initialCount() int {
	switch w.spec.Kind {
	case "single":
		return 1
	default:
		n := 0

		if w.spec.Boot == 1 || w.spec.Boot == 3 {
			n += len(w.snap) + 1
		}

		if w.spec.Boot == 2 || w.spec.Boot == 3 {
			n++
		}

		return n
	}
}

func (w *watcher) noteHandover(s *sim.Sched) {
	// called just before releasing a deliver gate of this watcher: the number of events handed
	// is learnt afterwards from the hand-over records; here we only need a monotone counter, which
	// is recomputed from the scheduler records.
	_, _, hands := s.Snapshot()
	n := 0

	for _, h := range hands {
		if h.Actor == w.name {
			if h.Batch != nil {
				n += len(h.Batch)
			} else {
				n++
			}
		}
	}

	w.handed = n
}

func evDesc(e state.Event) string {
	switch e.Type {
	case state.Errored:
		return fmt.Sprintf("Errored(%v)", e.Error)
	case state.Bootstrapped, state.Noop:
		return e.Type.String()
	}

	s := e.Type.String() + "(" + hres.Describe(e.Resource) + ")"
	if e.Old != nil {
		s += " old=" + hres.Describe(e.Old)
	}

	return s
}

func (w *watcher) check(p Plan, commits []model.Commit, col []int, _ []sim.Handover) string {
	evs := w.events
	i := 0

	next := func() (state.Event, bool) {
		if i < len(evs) {
			i++

			return evs[i-1], true
		}

		return state.Event{}, false
	}

	errored := false

	if n := len(evs); n > 0 && evs[n-1].Type == state.Errored {
		errored = true
	}

	for j, e := range evs {
		if e.Type == state.Errored && j != len(evs)-1 {
			return fmt.Sprintf("Errored event at position %d is not the last event (%d events)", j, len(evs))
		}
	}

	if errored && w.maxLag <= p.Init {
		return fmt.Sprintf("watcher was errored (%v) although it never lagged by more than the initial capacity", evs[len(evs)-1].Error)
	}

	// initial part
	switch w.spec.Kind {
	case "single":
		e, ok := next()
		if !ok {
			if errored {
				return ""
			}

			return "no initial event delivered after drain"
		}

		if e.Type == state.Errored {
			return ""
		}

		cur := w.snap[ids[w.spec.ID]]
		if cur != nil {
			if e.Type != state.Created {
				return fmt.Sprintf("initial event is %s, want Created(%s)", evDesc(e), cur)
			}

			if d := model.Diff(e.Resource, cur); d != "" {
				return "initial event: " + d
			}
		} else if e.Type != state.Destroyed || e.Resource == nil || e.Resource.Metadata().ID() != ids[w.spec.ID] {
			return fmt.Sprintf("initial event is %s, want Destroyed tombstone", evDesc(e))
		}
	default:
		if w.spec.Boot == 1 || w.spec.Boot == 3 {
			var idsSorted []string
			for _, id := range ids {
				if w.snap[id] != nil {
					idsSorted = append(idsSorted, id)
				}
			}

			for _, id := range idsSorted {
				e, ok := next()
				if !ok || e.Type == state.Errored {
					if errored {
						return ""
					}

					return "bootstrap contents incomplete"
				}

				if e.Type != state.Created {
					return fmt.Sprintf("bootstrap event is %s, want Created(%s)", evDesc(e), w.snap[id])
				}

				if d := model.Diff(e.Resource, w.snap[id]); d != "" {
					return "bootstrap event: " + d
				}
			}

			e, ok := next()
			if !ok || e.Type == state.Errored {
				if errored {
					return ""
				}

				return "Bootstrapped marker missing"
			}

			if e.Type != state.Bootstrapped {
				return fmt.Sprintf("expected Bootstrapped, got %s", evDesc(e))
			}
		}

		if w.spec.Boot == 2 || w.spec.Boot == 3 {
			e, ok := next()
			if !ok || e.Type == state.Errored {
				if errored {
					return ""
				}

				return "bootstrap bookmark event missing"
			}

			if e.Type != state.Noop || len(e.Bookmark) == 0 {
				return fmt.Sprintf("expected Noop with bookmark, got %s", evDesc(e))
			}
		}
	}

	// change log part
	replica := map[string]*model.Res{}
	for id, r := range w.snap {
		replica[id] = r.Clone()
	}

	for pos := w.p0; pos < len(col); pos++ {
		c := commits[col[pos]]
		if w.spec.Kind == "single" && c.New.ID != ids[w.spec.ID] {
			continue
		}

		e, ok := next()
		if !ok {
			if errored {
				return ""
			}

			return fmt.Sprintf("commit #%d (%s %s) was never delivered (silently dropped): got %d events", pos, c.Kind, c.New, len(evs))
		}

		if e.Type == state.Errored {
			return ""
		}

		if e.Type.String() != c.Kind.String() {
			return fmt.Sprintf("event for commit #%d is %s, want %s %s", pos, evDesc(e), c.Kind, c.New)
		}

		if d := model.Diff(e.Resource, c.New); d != "" {
			return fmt.Sprintf("event for commit #%d (%s): %s", pos, c.Kind, d)
		}

		if c.Kind == model.Updated {
			if e.Old == nil {
				return fmt.Sprintf("Updated event for commit #%d has no old value", pos)
			}

			if d := model.Diff(e.Old, c.Old); d != "" {
				return fmt.Sprintf("Updated event for commit #%d old value: %s", pos, d)
			}

			prev := replica[c.New.ID]
			if prev == nil || !model.EqualValue(prev, c.Old) || c.New.Ver != prev.Ver+1 {
				return fmt.Sprintf("Updated event for commit #%d: old value is not the previously delivered value, or version step != 1 (prev %s, new %s)", pos, prev, c.New)
			}
		}

		if len(e.Bookmark) == 0 {
			return fmt.Sprintf("event for commit #%d carries no bookmark", pos)
		}

		if c.Kind == model.Destroyed {
			delete(replica, c.New.ID)
		} else {
			replica[c.New.ID] = c.New.Clone()
		}
	}

	if e, ok := next(); ok && e.Type != state.Errored {
		return fmt.Sprintf("extra event delivered beyond the commit log: %s", evDesc(e))
	}

	return ""
}

// historyOptions builds the inmem options for the effective (init, max, gap) configuration. style 0 gives them in the
// natural way; styles 1 and 2 (only when init == max) reach the same effective configuration through the options'
// own normalisation: 1 = a smaller max first, then the initial capacity (which raises max); 2 = a larger initial
// capacity first, then max (which lowers the initial capacity).
func historyOptions(init, maxCap, gap, style int) []inmem.StateOption {
	switch {
	case style == 1 && init == maxCap && init > 1:
		return []inmem.StateOption{inmem.WithHistoryMaxCapacity(init / 2), inmem.WithHistoryInitialCapacity(init), inmem.WithHistoryGap(gap)}
	case style == 2 && init == maxCap:
		return []inmem.StateOption{inmem.WithHistoryInitialCapacity(2*maxCap + 3), inmem.WithHistoryMaxCapacity(maxCap), inmem.WithHistoryGap(gap)}
	}

	return []inmem.StateOption{inmem.WithHistoryInitialCapacity(init), inmem.WithHistoryMaxCapacity(maxCap), inmem.WithHistoryGap(gap)}
}

package c18

import (
	"testing"

	"go.yaml.in/yaml/v4"

	"github.com/cosi-project/runtime/pkg/resource"
	"github.com/cosi-project/runtime/pkg/state/impl/store"
)

func seedCorpus(f *testing.F, dec string) {
	for _, h := range hostile {
		f.Add(h)
	}

	for _, shape := range []string{"proto", "dynamic", "raw"} {
		p := Plan{Shape: shape, MD: MD{NS: "n1", ID: "a", Ver: "3", Owner: "o", Fins: []string{"f"}, Labels: map[string]string{"k": "v"}, Created: 1_700_000_000_123_456_789}, Str: "null", Num: 7, Items: []string{": "}}
		tp := TPlan{Dec: dec, Base: p}

		in := tp.Input()
		f.Add(in)

		if len(in) > 3 {
			f.Add(in[:len(in)/2])
			f.Add(in[:13])
		}
	}
}

func fuzzDecoder(f *testing.F, dec string) {
	seedCorpus(f, dec)

	f.Fuzz(func(t *testing.T, data []byte) {
		if fail, _ := Decode(dec, data); fail != "" {
			t.Fatal(fail)
		}
	})
}

func FuzzStoreProtobuf(f *testing.F) { fuzzDecoder(f, "store-protobuf") }
func FuzzStackZE(f *testing.F)       { fuzzDecoder(f, "stack-ze") }
func FuzzStackEZ(f *testing.F)       { fuzzDecoder(f, "stack-ez") }
func FuzzYAMLResource(f *testing.F)  { fuzzDecoder(f, "yaml-resource") }
func FuzzYAMLMetadata(f *testing.F)  { fuzzDecoder(f, "yaml-metadata") }
func FuzzAny(f *testing.F)           { fuzzDecoder(f, "any") }

var (
	_ = yaml.Marshal
	_ = resource.VersionUndefined
	_ = store.ProtobufMarshaler{}
)

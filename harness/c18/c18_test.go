package c18

import (
	"testing"

	"verifharness/hk"
)

func TestMain(m *testing.M) { hk.Main(m, "C18") }

func TestRoundTrip(t *testing.T) {
	hk.RunSub(t, hk.Sub[Plan]{Name: "s1/roundtrip", Quick: 15000, Thorough: 80000, Gen: Gen, Run: Run})
}

func TestTotality(t *testing.T) {
	hk.RunSub(t, hk.Sub[TPlan]{Name: "s1/decoder-totality", Quick: 6000, Thorough: 60000, Gen: GenT, Run: RunT})
}

package c18

import (
	"fmt"
	"strings"

	"go.yaml.in/yaml/v4"
	"pgregory.net/rapid"

	"github.com/cosi-project/runtime/api/v1alpha1"
	"github.com/cosi-project/runtime/pkg/resource"
	"github.com/cosi-project/runtime/pkg/resource/protobuf"
	"github.com/cosi-project/runtime/pkg/state/impl/store"

	"verifharness/hk"
)

// Decoders lists the decoding entry points exercised for totality.
var Decoders = []string{"store-protobuf", "stack-ze", "stack-ez", "stack-zz", "yaml-resource", "yaml-metadata", "version", "phase", "any"}

// Decode feeds data to one decoder; it returns a failure description ("" = fine) and whether the bytes decoded.
// A panic is converted into a failure. On success the result must re-encode and decode to an equal value.
func Decode(dec string, data []byte) (fail string, decoded bool) {
	defer func() {
		if r := recover(); r != nil {
			fail = fmt.Sprintf("decoder %s panicked on %d bytes %x: %v", dec, len(data), trunc(data), r)
		}
	}()

	reencode := func(m store.Marshaler, r resource.Resource) string {
		enc, err := m.MarshalResource(r)
		if err != nil {
			return fmt.Sprintf("decoder %s accepted %x but the result cannot be re-encoded: %v", dec, trunc(data), err)
		}

		r2, err := m.UnmarshalResource(enc)
		if err != nil {
			return fmt.Sprintf("decoder %s accepted %x but its re-encoding is rejected: %v", dec, trunc(data), err)
		}

		if d := sameResource(r, r2, true); d != "" {
			return fmt.Sprintf("decoder %s accepted %x but re-encoding does not round-trip: %s", dec, trunc(data), d)
		}

		return ""
	}

	switch dec {
	case "store-protobuf", "stack-ze", "stack-ez", "stack-zz":
		var m store.Marshaler = store.ProtobufMarshaler{}

		switch dec {
		case "stack-ze":
			m = buildStack([]string{"z", "e"}, []int{0, 0}, key1)
		case "stack-ez":
			m = buildStack([]string{"e", "z"}, []int{0, 0}, key1)
		case "stack-zz":
			m = buildStack([]string{"z", "z"}, []int{16, 0}, key1)
		}

		r, err := m.UnmarshalResource(data)
		if err != nil {
			return "", false
		}

		return reencode(m, r), true
	case "yaml-resource":
		var yr protobuf.YAMLResource
		if err := yaml.Unmarshal(data, &yr); err != nil {
			return "", false
		}

		return "", true
	case "yaml-metadata":
		var md resource.Metadata
		if err := yaml.Unmarshal(data, &md); err != nil {
			return "", false
		}

		// re-encode and parse again
		out, err := yaml.Marshal(&md)
		if err != nil {
			return fmt.Sprintf("metadata decoded from %q cannot be re-encoded: %v", trunc(data), err), true
		}

		var md2 resource.Metadata
		if err := yaml.Unmarshal(out, &md2); err != nil {
			return fmt.Sprintf("metadata decoded from %q re-encodes to unparsable YAML: %v\n%s", trunc(data), err, out), true
		}

		if !md.Equal(md2) {
			return fmt.Sprintf("metadata decoded from %q does not survive re-encoding: %v vs %v", trunc(data), md, md2), true
		}

		return "", true
	case "version":
		v, err := resource.ParseVersion(string(data))
		if err != nil {
			return "", false
		}

		// versions the store can produce are below 2^63; others are outside the statement's domain
		if v.String() != "undefined" && v.Value() < 1<<63 {
			v2, err := resource.ParseVersion(v.String())
			if err != nil || !v2.Equal(v) {
				return fmt.Sprintf("version parsed from %q prints %q which does not parse back (%v)", data, v.String(), err), true
			}
		}

		return "", true
	case "phase":
		ph, err := resource.ParsePhase(string(data))
		if err != nil {
			return "", false
		}

		if p2, err := resource.ParsePhase(ph.String()); err != nil || p2 != ph {
			return fmt.Sprintf("phase parsed from %q does not print/parse back", data), true
		}

		return "", true
	case "any":
		var m v1alpha1.Resource
		if err := protobuf.ProtoUnmarshal(data, &m); err != nil {
			return "", false
		}

		if m.GetMetadata() == nil || m.GetSpec() == nil {
			return "", false
		}

		if _, err := resource.NewAnyFromProto(m.GetMetadata(), anySpec{m.GetSpec().GetYamlSpec()}); err != nil {
			return "", false
		}

		return "", true
	}

	return "unknown decoder " + dec, false
}

type anySpec struct{ y string }

func (a anySpec) GetYaml() []byte { return []byte(a.y) }

func trunc(b []byte) []byte {
	if len(b) > 64 {
		return b[:64]
	}

	return b
}

// TPlan is a totality plan: a valid encoding of a generated resource, altered.
type TPlan struct {
	Dec   string `json:"dec"`
	Base  Plan   `json:"base"`
	Mode  int    `json:"mode"` // 0 as is, 1 truncate, 2 flip bit, 3 prefix hostile, 4 random bytes, 5 splice, 6 structure-aware edit (YAML: rename / duplicate / delete / reorder a top-level entry)
	Arg   int    `json:"arg"`
	Bytes []byte `json:"bytes"`
}

var hostile = [][]byte{{0x00}, {0x00, 'z'}, {0x00, 'z', 0x28, 0xb5, 0x2f, 0xfd}, {0x01}, {0x01, 0, 0, 0, 0, 0, 0, 0, 0, 0, 0, 0, 0}, {0x0a, 0xff, 0xff, 0xff, 0xff, 0x0f}, {0xff}}

// GenT draws a totality plan.
func GenT(t *rapid.T) TPlan {
	return TPlan{
		Dec:   rapid.SampledFrom(Decoders).Draw(t, "dec"),
		Base:  Gen(t),
		Mode:  rapid.IntRange(0, 6).Draw(t, "mode"),
		Arg:   rapid.IntRange(0, 100000).Draw(t, "arg"),
		Bytes: rapid.SliceOfN(rapid.Byte(), 0, 40).Draw(t, "bytes"),
	}
}

// Input derives the decoder input from the plan.
func (p TPlan) Input() []byte {
	var valid []byte

	r := p.Base.resource()

	switch p.Dec {
	case "store-protobuf", "any":
		if p.Base.Shape != "tombstone" {
			valid, _ = store.ProtobufMarshaler{}.MarshalResource(r)
		}
	case "stack-ze":
		if p.Base.Shape != "tombstone" {
			valid, _ = buildStack([]string{"z", "e"}, []int{0, 0}, key1).MarshalResource(r)
		}
	case "stack-ez":
		if p.Base.Shape != "tombstone" {
			valid, _ = buildStack([]string{"e", "z"}, []int{0, 0}, key1).MarshalResource(r)
		}
	case "stack-zz":
		if p.Base.Shape != "tombstone" {
			valid, _ = buildStack([]string{"z", "z"}, []int{16, 0}, key1).MarshalResource(r)
		}
	case "yaml-resource":
		if p.Base.Shape == "proto" {
			y, _ := resource.MarshalYAML(r)
			valid, _ = yaml.Marshal(y)
		}
	case "yaml-metadata":
		valid, _ = yaml.Marshal(r.Metadata())
	case "version":
		valid = []byte(p.Base.MD.Ver)
	case "phase":
		valid = []byte(resource.Phase(p.Base.MD.Phase).String())
	}

	if len(valid) == 0 {
		return p.Bytes
	}

	switch p.Mode {
	case 1:
		return valid[:p.Arg%len(valid)]
	case 2:
		b := append([]byte(nil), valid...)
		b[(p.Arg/8)%len(b)] ^= 1 << (p.Arg % 8)

		return b
	case 3:
		return append(append([]byte(nil), hostile[p.Arg%len(hostile)]...), valid...)
	case 4:
		return p.Bytes
	case 5:
		cut := p.Arg % len(valid)

		return append(append(append([]byte(nil), valid[:cut]...), p.Bytes...), valid[cut:]...)
	case 6:
		if p.Dec == "yaml-resource" || p.Dec == "yaml-metadata" {
			return yamlEdit(valid, p.Arg)
		}

		cut := p.Arg % len(valid)

		return append(append(append([]byte(nil), valid[:cut]...), p.Bytes...), valid[cut:]...)
	}

	return valid
}

// yamlEdit applies a structure-aware edit to a valid YAML document: its top-level entries (a line that does not start
// with a space, plus the indented lines that follow) are renamed after one another, duplicated, deleted or reordered.
// The result is still well-formed YAML most of the time, which byte-level edits almost never are.
func yamlEdit(valid []byte, arg int) []byte {
	lines := strings.SplitAfter(string(valid), "\n")

	var blocks [][]string

	for _, l := range lines {
		if l == "" {
			continue
		}

		if len(blocks) == 0 || (l[0] != ' ' && l[0] != '-' && l[0] != '\n') {
			blocks = append(blocks, nil)
		}

		blocks[len(blocks)-1] = append(blocks[len(blocks)-1], l)
	}

	if len(blocks) < 2 {
		return valid
	}

	i, j := arg%len(blocks), (arg/7)%len(blocks)
	if i == j {
		j = (j + 1) % len(blocks)
	}

	keyOf := func(b []string) string {
		k, _, _ := strings.Cut(b[0], ":")

		return k
	}

	switch (arg / 49) % 4 {
	case 0:
		// entry i takes the name of entry j: a duplicated key, the other key missing
		_, rest, _ := strings.Cut(blocks[i][0], ":")
		blocks[i] = append([]string{keyOf(blocks[j]) + ":" + rest}, blocks[i][1:]...)
	case 1:
		blocks = append(blocks, blocks[i])
	case 2:
		blocks = append(blocks[:i], blocks[i+1:]...)
	case 3:
		blocks[i], blocks[j] = blocks[j], blocks[i]
	}

	var out strings.Builder

	for _, b := range blocks {
		for _, l := range b {
			out.WriteString(l)
		}
	}

	return []byte(out.String())
}

// RunT runs one totality plan.
func RunT(p TPlan) (v hk.Verdict) {
	fail, decoded := Decode(p.Dec, p.Input())
	if fail != "" {
		v.Failf("%s", fail)
	}

	if decoded {
		v.NonTrivial = true

		v.Label("decoded:" + p.Dec)
	} else {
		v.Label("rejected:" + p.Dec)
	}

	return v
}

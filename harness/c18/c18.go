// Package c18 checks C18: every codec round-trips or rejects; decoders are total.
package c18

import (
	"bytes"
	"fmt"
	"math"
	"strconv"
	"strings"
	"sync/atomic"
	"time"
	"unicode/utf8"

	"go.yaml.in/yaml/v4"
	"pgregory.net/rapid"

	"github.com/cosi-project/runtime/api/v1alpha1"
	"github.com/cosi-project/runtime/pkg/resource"
	"github.com/cosi-project/runtime/pkg/resource/meta"
	"github.com/cosi-project/runtime/pkg/resource/protobuf"
	"github.com/cosi-project/runtime/pkg/resource/typed"
	"github.com/cosi-project/runtime/pkg/state/impl/store"
	"github.com/cosi-project/runtime/pkg/state/impl/store/compression"
	"github.com/cosi-project/runtime/pkg/state/impl/store/encryption"

	"verifharness/hk"
)

// ---- resource shapes ----

// PSpec is a typed spec backed by a protobuf message (shape "proto").
type PSpec = protobuf.ResourceSpec[v1alpha1.LabelTerm, *v1alpha1.LabelTerm]

type pExt struct{}

// zeroTime in a plan stands for the zero time.Time (a timestamp which was never set), which is outside the range
// of nanoseconds since the epoch.
const zeroTime = math.MinInt64

func planTime(ns int64) time.Time {
	if ns == zeroTime {
		return time.Time{}
	}

	return time.Unix(0, ns).UTC()
}

func (pExt) ResourceDefinition() meta.ResourceDefinitionSpec {
	return meta.ResourceDefinitionSpec{Type: "C18Proto", DefaultNamespace: "n1"}
}

// PRes is the typed resource with a protobuf spec.
type PRes = typed.Resource[PSpec, pExt]

// DSpec is a plain struct encoded with protoenc (shape "dynamic").
type DSpec struct {
	Str   string   `protobuf:"1" yaml:"str"`
	Num   uint64   `protobuf:"2" yaml:"num"`
	Items []string `protobuf:"3" yaml:"items"`
}

// DeepCopy implements typed.DeepCopyable.
func (s DSpec) DeepCopy() DSpec {
	s.Items = append([]string(nil), s.Items...)

	return s
}

type dExt struct{}

func (dExt) ResourceDefinition() meta.ResourceDefinitionSpec {
	return meta.ResourceDefinitionSpec{Type: "C18Dynamic", DefaultNamespace: "n1"}
}

// DRes is the typed resource with a dynamic spec.
type DRes = typed.Resource[DSpec, dExt]

func init() {
	if err := protobuf.RegisterResource("C18Proto", &PRes{}); err != nil {
		panic(err)
	}

	if err := protobuf.RegisterDynamic[DSpec]("C18Dynamic", &DRes{}); err != nil {
		panic(err)
	}
}

// MD is plain-data metadata.
type MD struct {
	NS     string            `json:"ns"`
	ID     string            `json:"id"`
	Owner  string            `json:"owner"`
	Ver    string            `json:"ver"`
	Phase  int               `json:"phase"`
	Fins   []string          `json:"fins"`
	Labels map[string]string `json:"labels"`
	Annos  map[string]string `json:"annos"`
	// times as unix nanos
	Created int64 `json:"created"`
	Updated int64 `json:"updated"`
}

// Plan is one resource plus codec parameters.
type Plan struct {
	Shape  string   `json:"shape"` // proto dynamic raw tombstone
	MD     MD       `json:"md"`
	Str    string   `json:"str"`
	Num    uint64   `json:"num"`
	Items  []string `json:"items"`
	Stack  []string `json:"stack"`  // marshaler stacking from inner to outer: "z" compression, "e" encryption
	MinSz  []int    `json:"minsz"`  // thresholds for each compression layer
	Tamper int      `json:"tamper"` // bit index to flip in the encrypted form (modulo length)
	Trunc  int      `json:"trunc"`
}

var special = []string{"", "a", "x-y_z.0", "null", "~", "0x1", "010", "1e3", "true", "no", ": ", "- x", "a: b", "#c", "'q'", "\"dq\"", "line1\nline2", " lead", "trail ", "\ttab", "üñí©ødé ✓", "{}", "[]", "!!str x", "&a", "*a", "%", "@", "`", "|", ">", "a\\b", "long-" + string(bytes.Repeat([]byte("x"), 300))}

// yamlLeadingTabBlock is the shape of the known finding c18-yaml-multiline-leading-whitespace: a multi-line string
// whose first non-empty line starts with a space or a tab.
func yamlLeadingTabBlock(s string) bool {
	isBreak := func(r rune) bool { return r == '\n' || r == '\r' || r == 0x85 || r == 0x2028 || r == 0x2029 }

	if !strings.ContainsFunc(s, isBreak) {
		return false
	}

	for _, line := range strings.FieldsFunc(s, isBreak) {
		if line != "" {
			return strings.HasPrefix(line, " ") || strings.HasPrefix(line, "\t")
		}
	}

	return false
}

// Excluded counts strings replaced because they have the shape of an open known finding.
var Excluded atomic.Int64

func genStr(t *rapid.T, label string) string {
	if rapid.IntRange(0, 3).Draw(t, label+"-kind") == 0 {
		s := rapid.String().Draw(t, label+"-any")
		if utf8.ValidString(s) {
			if yamlLeadingTabBlock(s) && hk.KnownOpen("c18-yaml-multiline-leading-whitespace") {
				Excluded.Add(1)

				return "excluded-known-finding"
			}

			return s
		}
	}

	return rapid.SampledFrom(special).Draw(t, label)
}

func genKV(t *rapid.T, label string) map[string]string {
	n := rapid.IntRange(0, 3).Draw(t, label+"-n")
	if n == 0 {
		return nil
	}

	m := map[string]string{}
	for i := 0; i < n; i++ {
		m[genStr(t, label+"-k")] = genStr(t, label+"-v")
	}

	return m
}

// Gen draws a plan.
func Gen(t *rapid.T) Plan {
	p := Plan{Shape: rapid.SampledFrom([]string{"proto", "proto", "dynamic", "dynamic", "raw", "tombstone"}).Draw(t, "shape")}

	p.MD = MD{
		NS: genStr(t, "ns"), ID: genStr(t, "id"), Owner: genStr(t, "owner"),
		Ver:    rapid.SampledFrom([]string{"undefined", "0", "1", "2", "2147483648", "9223372036854775807"}).Draw(t, "ver"),
		Phase:  rapid.IntRange(0, 1).Draw(t, "phase"),
		Labels: genKV(t, "labels"), Annos: genKV(t, "annos"),
		Created: rapid.SampledFrom([]int64{zeroTime, 0, 1, 1_000_000_000, 1_700_000_000_123_456_789, 1_700_000_000_000_000_000, 4_000_000_000_000_000_000, -1}).Draw(t, "created"),
		Updated: rapid.SampledFrom([]int64{zeroTime, 0, 999_999_999, 1_700_000_001_500_000_000, 2_000_000_000_000_000_000}).Draw(t, "updated"),
	}

	nf := rapid.IntRange(0, 6).Draw(t, "nfins")
	seen := map[string]bool{}

	for i := 0; i < nf; i++ {
		f := genStr(t, "fin")
		if !seen[f] {
			seen[f] = true

			p.MD.Fins = append(p.MD.Fins, f)
		}
	}

	p.Str = genStr(t, "str")
	p.Num = rapid.Uint64().Draw(t, "num")
	p.Items = rapid.SliceOfN(rapid.SampledFrom(special), 0, 3).Draw(t, "items")
	if len(p.Items) == 0 {
		p.Items = nil // protobuf does not distinguish an empty list from an absent one
	}

	p.Stack = rapid.SliceOfN(rapid.SampledFrom([]string{"z", "e"}), 0, 3).Draw(t, "stack")
	for range p.Stack {
		p.MinSz = append(p.MinSz, rapid.SampledFrom([]int{0, 1, 64, 200, 1 << 20}).Draw(t, "minsz"))
	}

	p.Tamper = rapid.IntRange(0, 100000).Draw(t, "tamper")
	p.Trunc = rapid.IntRange(1, 40).Draw(t, "trunc")

	return p
}

func (m MD) build(typ string) resource.Metadata {
	ver, _ := resource.ParseVersion(m.Ver)
	md := resource.NewMetadata(m.NS, typ, m.ID, ver)
	_ = md.SetOwner(m.Owner)
	md.SetPhase(resource.Phase(m.Phase))

	for _, f := range m.Fins {
		md.Finalizers().Add(f)
	}

	for k, v := range m.Labels {
		md.Labels().Set(k, v)
	}

	for k, v := range m.Annos {
		md.Annotations().Set(k, v)
	}

	md.SetCreated(planTime(m.Created))
	md.SetUpdated(planTime(m.Updated))

	return md
}

func (p Plan) resource() resource.Resource { //nolint:ireturn
	switch p.Shape {
	case "proto":
		return typed.NewResource[PSpec, pExt](p.MD.build("C18Proto"), protobuf.NewResourceSpec(&v1alpha1.LabelTerm{
			Key: p.Str, Op: v1alpha1.LabelTerm_Operation(p.Num % 9), Value: p.Items, Invert: p.Num%2 == 1,
		}))
	case "dynamic":
		return typed.NewResource[DSpec, dExt](p.MD.build("C18Dynamic"), DSpec{Str: p.Str, Num: p.Num, Items: p.Items})
	case "raw":
		// a resource of a type nobody registered travels as protobuf.Resource
		inner := typed.NewResource[DSpec, dExt](p.MD.build("C18Dynamic"), DSpec{Str: p.Str, Num: p.Num, Items: p.Items})

		pr, err := protobuf.FromResource(inner)
		if err != nil {
			panic(err)
		}

		m, _ := pr.Marshal()
		m.Metadata.Type = "C18Unregistered"

		raw, err := protobuf.Unmarshal(m)
		if err != nil {
			panic(err)
		}

		return raw
	default:
		md := p.MD.build("C18Dynamic")

		return resource.NewTombstone(md)
	}
}

var (
	key1 = bytes.Repeat([]byte{7}, 32)
	key2 = bytes.Repeat([]byte{9}, 32)
)

var zstdShared = compression.ZStd()

func buildStack(stack []string, minsz []int, key []byte) store.Marshaler {
	var m store.Marshaler = store.ProtobufMarshaler{}

	for i, l := range stack {
		switch l {
		case "z":
			m = compression.NewMarshaler(m, zstdShared, minsz[i])
		case "e":
			k := key
			m = encryption.NewMarshaler(m, encryption.NewCipher(encryption.KeyProviderFunc(func() ([]byte, error) { return k, nil })))
		}
	}

	return m
}

func sameResource(a, b resource.Resource, exactTimes bool) string {
	if resource.IsTombstone(a) || resource.IsTombstone(b) {
		if !a.Metadata().Equal(*b.Metadata()) {
			return fmt.Sprintf("metadata differ: %s vs %s", a.Metadata(), b.Metadata())
		}
	} else if !resource.Equal(a, b) && !sameRawContents(a, b) {
		return fmt.Sprintf("resources differ: %#v / %v vs %#v / %v", a.Metadata(), a.Spec(), b.Metadata(), b.Spec())
	}

	ca, cb := a.Metadata().Created(), b.Metadata().Created()
	ua, ub := a.Metadata().Updated(), b.Metadata().Updated()

	if exactTimes {
		if !ca.Equal(cb) || !ua.Equal(ub) {
			return fmt.Sprintf("timestamps differ: created %s vs %s, updated %s vs %s", ca, cb, ua, ub)
		}
	} else if ca.Unix() != cb.Unix() || ua.Unix() != ub.Unix() {
		return fmt.Sprintf("timestamps differ (to the second): created %s vs %s, updated %s vs %s", ca, cb, ua, ub)
	}

	return ""
}

// sameRawContents compares two pass-through resources (protobuf.Resource) by what they carry: equal metadata, the same
// spec bytes and the same YAML text. resource.Equal falls back to reflect.DeepEqual for them, which tells a spec of zero
// bytes held as an empty slice from one held as a nil slice - the same spec (found by FuzzStoreProtobuf: an input with a
// present but empty spec field decodes to the former, its re-encoding to the latter).
func sameRawContents(a, b resource.Resource) bool {
	pa, ok1 := a.(*protobuf.Resource)
	pb, ok2 := b.(*protobuf.Resource)

	if !ok1 || !ok2 || !a.Metadata().Equal(*b.Metadata()) {
		return false
	}

	ma, err1 := pa.Marshal()
	mb, err2 := pb.Marshal()

	if err1 != nil || err2 != nil {
		return false
	}

	return bytes.Equal(ma.GetSpec().GetProtoSpec(), mb.GetSpec().GetProtoSpec()) && ma.GetSpec().GetYamlSpec() == mb.GetSpec().GetYamlSpec()
}

// Run checks all round trips for one plan.
func Run(p Plan) (v hk.Verdict) {
	r := p.resource()

	// P1: protobuf wire form
	pr, err := protobuf.FromResource(r)
	if err != nil {
		v.Failf("FromResource: %v", err)

		return v
	}

	msg, err := pr.Marshal()
	if err != nil {
		v.Failf("Marshal: %v", err)

		return v
	}

	wire, err := protobuf.ProtoMarshal(msg)
	if err != nil {
		v.Failf("ProtoMarshal: %v", err)

		return v
	}

	var back v1alpha1.Resource
	if err := protobuf.ProtoUnmarshal(wire, &back); err != nil {
		v.Failf("ProtoUnmarshal of own encoding: %v", err)

		return v
	}

	if p.Shape != "tombstone" {
		pr2, err := protobuf.Unmarshal(&back)
		if err != nil {
			v.Failf("protobuf.Unmarshal of own encoding: %v", err)

			return v
		}

		r2, err := protobuf.UnmarshalResource(pr2)
		if err != nil {
			v.Failf("UnmarshalResource of own encoding: %v", err)

			return v
		}

		if d := sameResource(r, r2, true); d != "" {
			v.Failf("protobuf wire round trip (%s): %s", p.Shape, d)

			return v
		}

		// decoding into an instance that already holds another value (a resource built by a constructor with defaults,
		// an instance reused for a second decode) yields the encoded resource, not a mixture
		var used interface {
			resource.Resource
			protobuf.ResourceUnmarshaler
		}

		switch p.Shape { //nolint:gocritic
		case "proto": // (dynamic specs do not implement ProtoUnmarshaler on their own)
			used = typed.NewResource[PSpec, pExt](resource.NewMetadata("old-ns", "C18Proto", "old-id", resource.VersionUndefined), protobuf.NewResourceSpec(&v1alpha1.LabelTerm{
				Key: "old-key", Op: v1alpha1.LabelTerm_Operation(3), Value: []string{"old1", "old2"}, Invert: true,
			}))
		}

		if used != nil {
			used.Metadata().Labels().Set("old-label", "x")
			used.Metadata().Finalizers().Add("old-fin")

			if err := pr2.Unmarshal(used); err != nil {
				v.Failf("Unmarshal of own encoding into a used %s instance: %v", p.Shape, err)

				return v
			}

			if d := sameResource(r, used, true); d != "" {
				v.Failf("protobuf wire round trip (%s) into an instance that held another value: %s", p.Shape, d)

				return v
			}

			v.Label("decoded-into-used-instance")
		}
	}

	// P3: store marshaler stacks
	if p.Shape != "tombstone" {
		m := buildStack(p.Stack, p.MinSz, key1)

		enc, err := m.MarshalResource(r)
		if err != nil {
			v.Failf("stack %v MarshalResource: %v", p.Stack, err)

			return v
		}

		r3, err := m.UnmarshalResource(enc)
		if err != nil {
			v.Failf("stack %v (thresholds %v, %d bytes): UnmarshalResource of own encoding: %v", p.Stack, p.MinSz, len(enc), err)

			return v
		}

		if d := sameResource(r, r3, true); d != "" {
			v.Failf("store marshaler stack %v (thresholds %v): %s", p.Stack, p.MinSz, d)

			return v
		}

		// records are independent: encoding another resource with the same marshaler leaves an earlier record intact
		saved := bytes.Clone(enc)
		other := r.DeepCopy()
		other.Metadata().Labels().Set("zz-second", "record")

		enc2, err := m.MarshalResource(other)
		if err != nil {
			v.Failf("stack %v MarshalResource (second record): %v", p.Stack, err)

			return v
		}

		if !bytes.Equal(enc, saved) {
			v.Failf("stack %v (thresholds %v): the %d-byte record returned by MarshalResource changed when another resource was encoded with the same marshaler", p.Stack, p.MinSz, len(saved))

			return v
		}

		if r4, err := m.UnmarshalResource(enc); err != nil {
			v.Failf("stack %v: first record no longer decodes after a second one was encoded: %v", p.Stack, err)

			return v
		} else if d := sameResource(r, r4, true); d != "" {
			v.Failf("stack %v: first record decodes differently after a second one was encoded: %s", p.Stack, d)

			return v
		}

		if r5, err := m.UnmarshalResource(enc2); err != nil {
			v.Failf("stack %v: second record does not decode: %v", p.Stack, err)

			return v
		} else if d := sameResource(other, r5, true); d != "" {
			v.Failf("stack %v: second record: %s", p.Stack, d)

			return v
		}

		plain, _ := store.ProtobufMarshaler{}.MarshalResource(r)

		for i, l := range p.Stack {
			if l == "z" && (len(plain) >= p.MinSz[i]) != (len(plain) < p.MinSz[i]) && p.MinSz[i] > 0 && p.MinSz[i] < 1<<20 {
				v.NonTrivial = true

				v.Label("compression-threshold-in-range")
			}
		}

		// tampering with the outermost encryption layer
		if n := len(p.Stack); n > 0 && p.Stack[n-1] == "e" {
			t1 := append([]byte(nil), enc...)
			bit := p.Tamper % (len(t1) * 8)
			t1[bit/8] ^= 1 << (bit % 8)

			if rr, err := m.UnmarshalResource(t1); err == nil {
				v.Failf("encrypted record with bit %d flipped decrypted into a resource: %v", bit, rr.Metadata())

				return v
			}

			if p.Trunc < len(enc) {
				if rr, err := m.UnmarshalResource(enc[:len(enc)-p.Trunc]); err == nil {
					v.Failf("encrypted record truncated by %d bytes decrypted into a resource: %v", p.Trunc, rr.Metadata())

					return v
				}
			}

			if rr, err := buildStack(p.Stack, p.MinSz, key2).UnmarshalResource(enc); err == nil {
				v.Failf("encrypted record decrypted with another key into a resource: %v", rr.Metadata())

				return v
			}

			// substitution by a record made without the key: the encoding of another resource by the layers below the
			// encryption, and its plain protobuf encoding
			for si, sub := range []store.Marshaler{buildStack(p.Stack[:n-1], p.MinSz, key1), store.ProtobufMarshaler{}} {
				what := []string{"the stack below the encryption layer", "plain protobuf"}[si]

				forged, err := sub.MarshalResource(other)
				if err != nil {
					continue
				}

				if rr, err := m.UnmarshalResource(forged); err == nil {
					v.Failf("stack %v: the encrypted record replaced by an unencrypted record (%s) of another resource was accepted and decoded into %v", p.Stack, what, rr.Metadata())

					return v
				}
			}

			v.Label("tamper-checked")
		}
	}

	// P2: YAML (statically registered typed shapes only: YAMLResource creates the resource through the static registry,
	// which does not know dynamically registered types)
	if p.Shape == "proto" {
		y, err := resource.MarshalYAML(r)
		if err != nil {
			v.Failf("MarshalYAML: %v", err)

			return v
		}

		out, err := yaml.Marshal(y)
		if err != nil {
			v.Failf("yaml.Marshal: %v", err)

			return v
		}

		var yr protobuf.YAMLResource
		if err := yaml.Unmarshal(out, &yr); err != nil {
			v.Failf("YAML round trip (%s): cannot parse own output: %v\n%s", p.Shape, err, out)

			return v
		}

		if d := sameResource(r, yr.Resource(), false); d != "" {
			v.Failf("YAML round trip (%s): %s\n%s", p.Shape, d, out)

			return v
		}

		for _, s := range append(append([]string{p.MD.NS, p.MD.ID, p.MD.Owner}, p.MD.Fins...), keysVals(p.MD.Labels)...) {
			if isYAMLSpecial(s) {
				v.NonTrivial = true

				v.Label("yaml-special-string")
			}
		}
	}

	// P4: text forms
	ver := r.Metadata().Version()

	pv, err := resource.ParseVersion(ver.String())
	if err != nil || !pv.Equal(ver) {
		v.Failf("version text form %q does not parse back (%v)", ver.String(), err)
	}

	ph, err := resource.ParsePhase(r.Metadata().Phase().String())
	if err != nil || ph != r.Metadata().Phase() {
		v.Failf("phase text form does not parse back (%v)", err)
	}

	ts := r.Metadata().Created().Format(time.RFC3339)

	pt, err := time.Parse(time.RFC3339, ts)
	if err != nil || pt.Unix() != r.Metadata().Created().Unix() {
		v.Failf("timestamp text form %q does not parse back (%v)", ts, err)
	}

	v.Outcome = p.Shape + " stack=" + fmt.Sprint(p.Stack) + " wire=" + strconv.Itoa(len(wire))

	return v
}

func keysVals(m map[string]string) []string {
	var out []string
	for k, v := range m {
		out = append(out, k, v)
	}

	return out
}

func isYAMLSpecial(s string) bool {
	for _, x := range special[3:30] {
		if s == x {
			return true
		}
	}

	return false
}

// Package c20 checks C20: key storage - master key recoverable via live slots only; tampering detected.
package c20

import (
	"bytes"
	"fmt"
	"sort"
	"sync"

	"github.com/ProtonMail/gopenpgp/v2/crypto"
	"github.com/ProtonMail/gopenpgp/v2/helper"
	"pgregory.net/rapid"

	"github.com/cosi-project/runtime/api/key_storage"
	"github.com/cosi-project/runtime/pkg/keystorage"

	"verifharness/hk"
)

type keyPair struct{ priv, pub string }

var keyPool = sync.OnceValue(func() []keyPair {
	var out []keyPair

	for i := 0; i < 6; i++ {
		priv, err := helper.GenerateKey(fmt.Sprintf("k%d", i), fmt.Sprintf("k%d@example.com", i), nil, "x25519", 0)
		if err != nil {
			panic(err)
		}

		k, err := crypto.NewKeyFromArmored(priv)
		if err != nil {
			panic(err)
		}

		pub, err := k.GetArmoredPublicKey()
		if err != nil {
			panic(err)
		}

		out = append(out, keyPair{priv, pub})
	}

	return out
})

// Op is one step.
type Op struct {
	K    string `json:"k"`    // init add delete get marshal corrupt cdelete (all live slots deleted concurrently, each with its own key)
	Slot int    `json:"slot"` // target slot id index
	Key  int    `json:"key"`  // key pair index for the target slot / private key used
	Auth int    `json:"auth"` // add: authorising slot
	AKey int    `json:"akey"` // add: private key used for the authorising slot; -1 = the right one
	Bad  int    `json:"bad"`  // init: 0 valid, 1 wrong key length, 2 empty slot id, 3 empty public key
	Corr int    `json:"corr"` // corrupt: 0 blob byte, 1 swap blobs, 2 drop slot, 3 add slot (copy), 4 add slot (outsider), 5 hmac byte, 6 version, 7 algorithm, 8 hmac removed, 9 hmac truncated, 10 hmac extended
	Arg  int    `json:"arg"`
}

// Plan is a sequence.
type Plan struct {
	Ops []Op `json:"ops"`
}

var slotIDs = []string{"s1", "s2", "s3", "s4"}

// Gen draws a plan.
func Gen(t *rapid.T) Plan {
	p := Plan{Ops: []Op{{K: "init", Slot: rapid.IntRange(0, 3).Draw(t, "islot"), Key: rapid.IntRange(0, 5).Draw(t, "ikey"), Bad: rapid.SampledFrom([]int{0, 0, 0, 0, 0, 0, 0, 0, 0, 1, 2, 3}).Draw(t, "ibad")}}}

	n := rapid.IntRange(4, 24).Draw(t, "n")
	for i := 0; i < n; i++ {
		p.Ops = append(p.Ops, Op{
			K:    rapid.SampledFrom([]string{"init", "add", "add", "add", "add", "add", "delete", "delete", "get", "get", "marshal", "marshal", "corrupt", "cdelete"}).Draw(t, "k"),
			Slot: rapid.IntRange(0, 3).Draw(t, "slot"),
			Key:  rapid.SampledFrom([]int{-1, -1, 0, 1, 2, 3, 4, 5}).Draw(t, "key"),
			Auth: rapid.SampledFrom([]int{-1, -1, -1, 0, 1, 2, 3}).Draw(t, "auth"),
			AKey: rapid.SampledFrom([]int{-1, -1, -1, 0, 1, 2, 3, 4, 5}).Draw(t, "akey"),
			Bad:  rapid.SampledFrom([]int{0, 0, 1, 2}).Draw(t, "bad"),
			Corr: rapid.IntRange(0, 10).Draw(t, "corr"),
			Arg:  rapid.IntRange(0, 100000).Draw(t, "arg"),
		})
	}

	return p
}

// Run interprets the plan against the real key storage and the model.
//
//nolint:gocyclo,gocognit,cyclop,maintidx
func Run(p Plan) (v hk.Verdict) {
	keys := keyPool()
	ks := &keystorage.KeyStorage{}

	var (
		master   []byte
		slots    = map[string]int{} // live slot -> key pair index
		everLive = map[string]bool{}
		deleted  = map[string]bool{}
	)

	checkAll := func(step int, what string, k *keystorage.KeyStorage) bool {
		for si, sid := range slotIDs {
			for ki := range keys {
				got, err := k.GetMasterKey(sid, keys[ki].priv)
				want, live := slots[sid]

				if live && want == ki {
					if err != nil || !bytes.Equal(got, master) {
						v.Failf("step %d (%s): live slot %s with its own key returned (%x, %v), want the master key", step, what, sid, got, err)

						return false
					}
				} else if err == nil {
					v.Failf("step %d (%s): slot %s (live=%v, deleted=%v) with key pair %d returned a key %x", step, what, sid, live, deleted[sid], ki, got)

					return false
				}
			}

			_ = si
		}

		return true
	}

	successAfter := false

	for i, op := range p.Ops {
		what := fmt.Sprintf("%+v", op)
		sid := slotIDs[op.Slot]

		// symbolic arguments: -1 = "a live slot" / "the right key"
		if op.Auth < 0 {
			op.Auth = 0

			var live []string
			for id := range slots {
				live = append(live, id)
			}

			sort.Strings(live)

			if len(live) > 0 {
				for j, id := range slotIDs {
					if id == live[op.Arg%len(live)] {
						op.Auth = j
					}
				}
			}
		}

		if op.Key < 0 {
			op.Key = op.Arg % 6

			if k, ok := slots[sid]; ok && op.K != "add" && op.K != "init" {
				op.Key = k
			}
		}

		switch op.K {
		case "init":
			mk := bytes.Repeat([]byte{byte(7 + i)}, 32)
			id, pub := sid, keys[op.Key].pub

			switch op.Bad {
			case 1:
				mk = mk[:31]
			case 2:
				id = ""
			case 3:
				pub = ""
			}

			err := ks.Initialize(mk, id, pub)

			wantOK := master == nil && op.Bad == 0
			if (err == nil) != wantOK {
				v.Failf("step %d (%s): Initialize returned %v, model expects success=%v (already initialised=%v)", i, what, err, wantOK, master != nil)

				return v
			}

			if err == nil {
				master = mk
				slots[sid] = op.Key
				everLive[sid] = true
			}
		case "add":
			authID := slotIDs[op.Auth]
			akey := op.AKey

			if akey < 0 {
				akey = slots[authID] // zero value if not live: some key
			}

			err := ks.AddKeySlot(sid, keys[op.Key].pub, authID, keys[akey].priv)
			authKey, authLive := slots[authID]
			_, exists := slots[sid]
			wantOK := master != nil && !exists && authLive && authKey == akey

			if (err == nil) != wantOK {
				v.Failf("step %d (%s): AddKeySlot returned %v, model expects success=%v (target exists=%v, authorising slot live=%v with right key=%v)", i, what, err, wantOK, exists, authLive, authLive && authKey == akey)

				return v
			}

			if err == nil {
				slots[sid] = op.Key
				everLive[sid] = true

				delete(deleted, sid)
			}
		case "delete":
			err := ks.DeleteKeySlot(sid, keys[op.Key].priv)
			k, live := slots[sid]
			wantOK := master != nil && live && k == op.Key && len(slots) > 1

			if (err == nil) != wantOK {
				v.Failf("step %d (%s): DeleteKeySlot returned %v, model expects success=%v (live=%v right key=%v slots=%d)", i, what, err, wantOK, live, live && k == op.Key, len(slots))

				return v
			}

			if err == nil {
				delete(slots, sid)

				deleted[sid] = true
			}
		case "cdelete":
			if master == nil || len(slots) < 2 {
				continue
			}

			// every live slot is deleted at the same time by the holder of its key: all but one must go through
			var live []string
			for id := range slots {
				live = append(live, id)
			}

			sort.Strings(live)

			errs := make([]error, len(live))

			var wg sync.WaitGroup

			for li, id := range live {
				wg.Add(1)

				go func() {
					defer wg.Done()

					errs[li] = ks.DeleteKeySlot(id, keys[slots[id]].priv)
				}()
			}

			wg.Wait()

			var kept []string

			for li, id := range live {
				if errs[li] != nil {
					kept = append(kept, id)
				}
			}

			if len(kept) != 1 {
				v.Failf("step %d: %d live slots deleted concurrently, each with its own key: %d deletions were refused (errors %v), exactly one must be (the last slot can never be deleted, any other can)", i, len(live), len(kept), errs)

				return v
			}

			for _, id := range live {
				if id != kept[0] {
					delete(slots, id)

					deleted[id] = true
				}
			}

			v.Label("concurrent-delete-of-all-slots")

			if !checkAll(i, "after concurrent deletes", ks) {
				return v
			}
		case "get":
			got, err := ks.GetMasterKey(sid, keys[op.Key].priv)
			k, live := slots[sid]
			wantOK := master != nil && live && k == op.Key

			if (err == nil) != wantOK || (err == nil && !bytes.Equal(got, master)) {
				v.Failf("step %d (%s): GetMasterKey returned (%x, %v), model expects success=%v", i, what, got, err, wantOK)

				return v
			}

			if wantOK && (len(deleted) > 0 || successAfter) {
				v.NonTrivial = true

				v.Label("retrieval-after-delete-or-reload")
			}
		case "marshal":
			b, err := ks.MarshalBinary()
			if err != nil {
				v.Failf("step %d: MarshalBinary: %v", i, err)

				return v
			}

			fresh := &keystorage.KeyStorage{}
			if err := fresh.UnmarshalBinary(b); err != nil {
				if master == nil {
					continue // an uninitialised storage has no valid version to load
				}

				v.Failf("step %d: UnmarshalBinary of own output: %v", i, err)

				return v
			}

			ks = fresh
			successAfter = true

			if !checkAll(i, "after marshal/unmarshal", ks) {
				return v
			}
		case "corrupt":
			if master == nil {
				continue
			}

			b, _ := ks.MarshalBinary()

			var st key_storage.Storage
			if err := st.UnmarshalVT(b); err != nil {
				v.Failf("harness: %v", err)

				return v
			}

			var ids []string
			for id := range st.KeySlots {
				ids = append(ids, id)
			}

			sort.Strings(ids)

			target := ids[op.Arg%len(ids)]
			onlyTarget := false // corruption whose detection is promised only for the altered slot

			switch op.Corr {
			case 0:
				blob := st.KeySlots[target].EncryptedKey
				blob[op.Arg%len(blob)] ^= byte(1 + op.Arg%255)
			case 1:
				if len(ids) < 2 {
					continue
				}

				other := ids[(op.Arg+1)%len(ids)]
				if bytes.Equal(st.KeySlots[target].EncryptedKey, st.KeySlots[other].EncryptedKey) {
					continue
				}

				st.KeySlots[target].EncryptedKey, st.KeySlots[other].EncryptedKey = st.KeySlots[other].EncryptedKey, st.KeySlots[target].EncryptedKey
			case 2:
				if len(ids) < 2 {
					continue
				}

				delete(st.KeySlots, target)
			case 3:
				st.KeySlots["zz-injected"] = &key_storage.KeySlot{Algorithm: key_storage.Algorithm_PGP_AES_GCM_256, EncryptedKey: append([]byte(nil), st.KeySlots[target].EncryptedKey...)}
			case 4:
				enc, err := helper.EncryptBinaryMessageArmored(keys[5].pub, master)
				if err != nil {
					continue
				}

				st.KeySlots["zz-outsider"] = &key_storage.KeySlot{Algorithm: key_storage.Algorithm_PGP_AES_GCM_256, EncryptedKey: []byte(enc)}
			case 5:
				st.KeysHmacHash[op.Arg%len(st.KeysHmacHash)] ^= byte(1 + op.Arg%255)
			case 8:
				st.KeysHmacHash = nil
			case 9:
				st.KeysHmacHash = st.KeysHmacHash[:op.Arg%len(st.KeysHmacHash)]
			case 10:
				st.KeysHmacHash = append(append([]byte(nil), st.KeysHmacHash...), byte(op.Arg))
			case 6:
				st.StorageVersion = key_storage.StorageVersion(2 + op.Arg%3)
			case 7:
				st.KeySlots[target].Algorithm = key_storage.Algorithm(op.Arg%5 + 2)
				onlyTarget = true
			}

			cb, err := st.MarshalVT()
			if err != nil {
				continue
			}

			// the altered bytes are loaded into a fresh object, and re-loaded into an object that had the genuine
			// storage loaded and a key retrieved before (a long-lived storage)
			reused := &keystorage.KeyStorage{}
			if err := reused.UnmarshalBinary(b); err == nil {
				for id, ki := range slots {
					_, _ = reused.GetMasterKey(id, keys[ki].priv)

					break
				}
			}

			var liveIDs []string
			for id := range slots {
				liveIDs = append(liveIDs, id)
			}

			sort.Strings(liveIDs)

			// ... and into an object that has itself written the storage (a slot added and deleted again leaves the
			// same slots and the same tag behind)
			var written *keystorage.KeyStorage

			if len(liveIDs) > 0 && op.Arg%2 == 0 {
				w := &keystorage.KeyStorage{}
				auth := liveIDs[op.Arg/2%len(liveIDs)]

				if err := w.UnmarshalBinary(b); err == nil {
					if err := w.AddKeySlot("zz-tmp", keys[0].pub, auth, keys[slots[auth]].priv); err == nil {
						if err := w.DeleteKeySlot("zz-tmp", keys[0].priv); err == nil {
							if wb, err := w.MarshalBinary(); err == nil && bytes.Equal(wb, b) {
								written = w
							} else if err == nil {
								var wst, st0 key_storage.Storage
								if wst.UnmarshalVT(wb) == nil && st0.UnmarshalVT(b) == nil && wst.EqualVT(&st0) {
									written = w
								}
							}
						}
					}
				}
			}

			rejectedAtLoad := false

			// (protobuf unmarshalling into a used object merges: an alteration that only removes something - the tag,
			// a slot - leaves the genuine storage behind there, which is not tampered with)
			onlyRemoves := op.Corr == 2 || op.Corr == 8 || len(st.KeysHmacHash) == 0

			for _, tampered := range []*keystorage.KeyStorage{{}, reused, written} {
				how := "loaded into a fresh storage"

				switch {
				case tampered == nil:
					continue
				case tampered == reused:
					if onlyRemoves {
						continue
					}

					how = "re-loaded into a storage that had verified the genuine form before"
				case tampered == written:
					if onlyRemoves {
						continue
					}

					how = "re-loaded into a storage that had added and deleted a slot of the genuine form before"

					v.Label("tamper-reloaded-into-writer")
				}

				if err := tampered.UnmarshalBinary(cb); err != nil {
					rejectedAtLoad = true

					continue
				}

				for _, sid2 := range liveIDs {
					if onlyTarget && sid2 != target {
						continue
					}

					if got, err := tampered.GetMasterKey(sid2, keys[slots[sid2]].priv); err == nil {
						v.Failf("step %d (%s, target %s; %s): after the alteration slot %s still returns a key %x: tampering not detected", i, what, target, how, sid2, got)

						return v
					}
				}

				// operations that retrieve the key internally detect the alteration too (and so cannot re-seal it)
				for _, sid2 := range liveIDs {
					if onlyTarget && sid2 != target {
						continue
					}

					priv := keys[slots[sid2]].priv

					if err := tampered.AddKeySlot("zz-added", keys[0].pub, sid2, priv); err == nil {
						v.Failf("step %d (%s, target %s; %s): AddKeySlot authorised by slot %s succeeded on the altered storage: tampering not detected", i, what, target, how, sid2)

						return v
					}

					if err := tampered.DeleteKeySlot(sid2, priv); err == nil {
						v.Failf("step %d (%s, target %s; %s): DeleteKeySlot(%s) succeeded on the altered storage: tampering not detected (and re-sealed)", i, what, target, how, sid2)

						return v
					}
				}

				// never-added / outsider slots must not unlock anything either
				for _, extra := range []string{"zz-injected", "zz-outsider"} {
					for ki := range keys {
						if got, err := tampered.GetMasterKey(extra, keys[ki].priv); err == nil {
							v.Failf("step %d (%s; %s): injected slot %s returns a key %x", i, what, how, extra, got)

							return v
						}
					}
				}
			}

			if rejectedAtLoad {
				v.Label("tamper-rejected-at-load")
			}

			v.Label("tamper-detected:" + fmt.Sprint(op.Corr))

			if len(slots) >= 2 {
				v.NonTrivial = true

				v.Label("tamper-with-several-live-slots")
			}
		}
	}

	if master != nil {
		if !checkAll(len(p.Ops), "final", ks) {
			return v
		}
	}

	v.Outcome = fmt.Sprintf("%d ops, %d live slots", len(p.Ops), len(slots))

	return v
}

package c20

import (
	"testing"

	"verifharness/hk"
)

func TestMain(m *testing.M) { hk.Main(m, "C20") }

func TestS1(t *testing.T) {
	hk.RunSub(t, hk.Sub[Plan]{Name: "s1/keystorage", Quick: 1500, Thorough: 8000, Gen: Gen, Run: Run})
}

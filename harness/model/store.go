// Package model holds the reference models (oracles) written from the property statements.
package model

import (
	"fmt"
	"maps"
	"slices"
	"sort"

	"github.com/cosi-project/runtime/pkg/resource"
	"github.com/cosi-project/runtime/pkg/state"

	"verifharness/hres"
)

// Key identifies a resource.
type Key struct{ NS, Typ, ID string }

func (k Key) String() string { return k.NS + "/" + k.Typ + "/" + k.ID }

// Res is the model's value of a resource.
type Res struct {
	Key
	Ver    uint64 // 0 = undefined
	Owner  string
	Phase  int // 0 running, 1 tearing down
	Fins   []string
	Labels map[string]string
	Annos  map[string]string
	Val    string
	Inc    int // incarnation (how many times this key was created before + 1)
}

// Clone deep-copies.
func (r *Res) Clone() *Res {
	if r == nil {
		return nil
	}

	c := *r
	c.Fins = slices.Clone(r.Fins)
	c.Labels = maps.Clone(r.Labels)
	c.Annos = maps.Clone(r.Annos)

	return &c
}

func (r *Res) String() string {
	if r == nil {
		return "<absent>"
	}

	return fmt.Sprintf("%s@%d owner=%q phase=%d fins=%v labels=%v val=%q inc=%d", r.Key, r.Ver, r.Owner, r.Phase, r.Fins, r.Labels, r.Val, r.Inc)
}

// ErrClass is the class of an error according to the statement.
type ErrClass int

// Error classes.
const (
	OK ErrClass = iota
	NotFound
	AlreadyExists
	OwnerConflict
	VersionConflict
	PhaseConflict
	PendingFinalizers
	Other
)

var errNames = []string{"ok", "not-found", "already-exists", "owner-conflict", "version-conflict", "phase-conflict", "pending-finalizers", "other"}

func (e ErrClass) String() string { return errNames[e] }

// Classify maps a real error onto a class using only the public predicates.
// It never calls IsConflictError with qualifiers (that is tested separately).
func Classify(err error) ErrClass {
	switch {
	case err == nil:
		return OK
	case state.IsNotFoundError(err):
		return NotFound
	case state.IsOwnerConflictError(err):
		return OwnerConflict
	case state.IsPhaseConflictError(err):
		return PhaseConflict
	case state.IsConflictError(err):
		return VersionConflict // refined by the caller: already-exists / version / finalizers are all plain conflicts
	default:
		return Other
	}
}

// PlainConflict tells whether the class is reported as a plain conflict by the predicates.
func (e ErrClass) PlainConflict() bool {
	return e == AlreadyExists || e == VersionConflict || e == PendingFinalizers
}

// SameObservable compares a modelled class with the observed (predicate-derived) class.
func SameObservable(model, observed ErrClass) bool {
	if model.PlainConflict() {
		return observed == VersionConflict
	}

	return model == observed
}

// CommitKind is the type of a committed change.
type CommitKind int

// Commit kinds.
const (
	Created CommitKind = iota
	Updated
	Destroyed
)

func (k CommitKind) String() string { return [...]string{"Created", "Updated", "Destroyed"}[k] }

// Commit is one entry of the commit log.
type Commit struct {
	Kind CommitKind
	New  *Res // value after (for Destroyed: the removed value)
	Old  *Res // value before (Updated only)
}

// Store is the sequential specification of the resource store.
type Store struct {
	M    map[Key]*Res
	Incs map[Key]int
	Log  []Commit
}

// NewStore creates an empty model.
func NewStore() *Store {
	return &Store{M: map[Key]*Res{}, Incs: map[Key]int{}}
}

// Get returns the stored value or nil.
func (s *Store) Get(k Key) *Res { return s.M[k] }

// List returns values of a kind sorted by id.
func (s *Store) List(ns, typ string) []*Res {
	var out []*Res

	for k, v := range s.M {
		if k.NS == ns && k.Typ == typ {
			out = append(out, v)
		}
	}

	sort.Slice(out, func(i, j int) bool { return out[i].ID < out[j].ID })

	return out
}

// Create applies the spec of Create. r.Owner is ignored; owner is the requested owner.
func (s *Store) Create(r *Res, owner string) ErrClass {
	if _, ok := s.M[r.Key]; ok {
		return AlreadyExists
	}

	c := r.Clone()
	c.Ver = 1
	c.Owner = owner
	s.Incs[r.Key]++
	c.Inc = s.Incs[r.Key]
	s.M[r.Key] = c
	s.Log = append(s.Log, Commit{Kind: Created, New: c.Clone()})

	return OK
}

// Update applies the spec of Update: exists, owner, version, phase in that precedence.
// r.Ver == 0 means the supplied version is undefined.
func (s *Store) Update(r *Res, optOwner string, expectedPhase *int) ErrClass {
	cur, ok := s.M[r.Key]
	if !ok {
		return NotFound
	}

	if cur.Owner != optOwner {
		return OwnerConflict
	}

	if cur.Ver != r.Ver {
		return VersionConflict
	}

	if expectedPhase != nil && cur.Phase != *expectedPhase {
		return PhaseConflict
	}

	c := r.Clone()
	c.Ver = cur.Ver + 1
	c.Inc = cur.Inc
	s.M[r.Key] = c
	s.Log = append(s.Log, Commit{Kind: Updated, New: c.Clone(), Old: cur.Clone()})

	return OK
}

// Destroy applies the spec of Destroy: exists, owner, finalizers.
func (s *Store) Destroy(k Key, owner string) ErrClass {
	cur, ok := s.M[k]
	if !ok {
		return NotFound
	}

	if cur.Owner != owner {
		return OwnerConflict
	}

	if len(cur.Fins) > 0 {
		return PendingFinalizers
	}

	delete(s.M, k)
	s.Log = append(s.Log, Commit{Kind: Destroyed, New: cur.Clone()})

	return OK
}

// Snapshot deep-copies the contents.
func (s *Store) Snapshot() map[Key]*Res {
	out := make(map[Key]*Res, len(s.M))
	for k, v := range s.M {
		out[k] = v.Clone()
	}

	return out
}

// FromResource builds a model value from a real resource (Inc is left 0).
func FromResource(r resource.Resource) *Res {
	md := r.Metadata()
	m := &Res{
		Key:   Key{md.Namespace(), md.Type(), md.ID()},
		Owner: md.Owner(),
		Phase: int(md.Phase()),
		Val:   hres.Value(r),
	}

	if md.Version().String() != "undefined" {
		m.Ver = md.Version().Value()
	}

	m.Fins = slices.Clone([]string(*md.Finalizers()))

	if raw := md.Labels().Raw(); len(raw) > 0 {
		m.Labels = maps.Clone(raw)
	}

	if raw := md.Annotations().Raw(); len(raw) > 0 {
		m.Annos = maps.Clone(raw)
	}

	return m
}

// ToResource builds a real harness resource from a model value.
func ToResource(m *Res) *hres.R {
	r := hres.New(m.NS, m.Typ, m.ID, m.Val)
	md := r.Metadata()

	if m.Ver != 0 {
		v, _ := resource.ParseVersion(fmt.Sprint(m.Ver))
		md.SetVersion(v)
	}

	_ = md.SetOwner(m.Owner)
	md.SetPhase(resource.Phase(m.Phase))

	for _, f := range m.Fins {
		md.Finalizers().Add(f)
	}

	for _, k := range sortedKeys(m.Labels) {
		md.Labels().Set(k, m.Labels[k])
	}

	for _, k := range sortedKeys(m.Annos) {
		md.Annotations().Set(k, m.Annos[k])
	}

	return r
}

func sortedKeys(m map[string]string) []string {
	ks := make([]string, 0, len(m))
	for k := range m {
		ks = append(ks, k)
	}

	sort.Strings(ks)

	return ks
}

// Diff compares a real resource with a model value; "" when equal. Incarnation is not compared.
func Diff(real resource.Resource, m *Res) string {
	if real == nil && m == nil {
		return ""
	}

	if real == nil {
		return fmt.Sprintf("got nil, want %s", m)
	}

	if m == nil {
		return fmt.Sprintf("got %s, want absent", hres.Describe(real))
	}

	g := FromResource(real)

	if !EqualValue(g, m) {
		return fmt.Sprintf("got %s, want %s", g, m)
	}

	return ""
}

// EqualValue compares two model values ignoring incarnation; finalizers compare as sets.
func EqualValue(a, b *Res) bool {
	if a == nil || b == nil {
		return a == nil && b == nil
	}

	if a.Key != b.Key || a.Ver != b.Ver || a.Owner != b.Owner || a.Phase != b.Phase || a.Val != b.Val {
		return false
	}

	fa, fb := slices.Clone(a.Fins), slices.Clone(b.Fins)
	sort.Strings(fa)
	sort.Strings(fb)

	if !slices.Equal(fa, fb) {
		return false
	}

	return mapsEq(a.Labels, b.Labels) && mapsEq(a.Annos, b.Annos)
}

func mapsEq(a, b map[string]string) bool {
	if len(a) == 0 && len(b) == 0 {
		return true
	}

	return maps.Equal(a, b)
}

// Package c06 checks C06: generic transform controllers converge to the mapped image of their inputs.
package c06

import (
	"fmt"
	"os"
	"slices"

	"verifharness/gsim"
	"verifharness/hk"
	"verifharness/hres"
	"verifharness/model"
	"verifharness/sim"
)

// AllCtrls are the generated configurations.
var AllCtrls = []string{"transform", "transform-fin", "transform-ignore", "qtransform", "qtransform", "qtransform-until", "qtransform-while"}

// Run executes a plan and applies the quiescence oracle.
func Run(p gsim.Plan) (v hk.Verdict) {
	r := gsim.Run(p)

	if r.Harness != "" {
		v.Failf("harness: %s", r.Harness)

		return v
	}

	if r.Early {
		v.Failf("runtime Run returned early: %s", r.RunErr)

		return v
	}

	if !r.Quiet {
		v.Inconclusive = true

		v.Label("not-quiescent")

		if os.Getenv("VERIF_DEBUG_NQ") != "" {
			v.Failf("%s not quiescent; log tail: %s", p.Ctrl, tail(r.Log))
		}

		return v
	}

	heldOut := func(id string) bool {
		o := r.Cur[gsim.OutKey(id)]

		return o != nil && o.Phase == 1 && slices.Contains(o.Fins, gsim.ExtB) && r.ExtHeld[hres.TypeGB+"/"+id+"/"+gsim.ExtB]
	}

	ctx := fmt.Sprintf("[%s conc=%d transform=%dms errs=%v faults=%v release=%v]", p.Ctrl, p.Conc, p.TransformMs, p.ErrPattern, p.StoreFaults, p.Release)

	for _, id := range gsim.IDs {
		in := r.Cur[gsim.InKey(id)]
		out := r.Cur[gsim.OutKey(id)]
		live := gsim.Live(p, in)

		switch {
		case live:
			// (b) the image exists with the latest content, unless an output of that id is still held in teardown
			if heldOut(id) {
				v.Label("image-blocked-by-held-output")

				continue
			}

			if out == nil {
				v.Failf("%s (b) input %s is live but its output does not exist at quiescence; log: %s", ctx, in, tail(r.Log))

				continue
			}

			if out.Owner != gsim.CtrlName || out.Phase != 0 || out.Val != gsim.F(in.Val) {
				v.Failf("%s (b) input %s is live but its output is %s (want running, owner %s, value %q); log: %s", ctx, in, out, gsim.CtrlName, gsim.F(in.Val), tail(r.Log))
			}
		case gsim.Gated(p, id) && in != nil && in.Phase == 1 && slices.Contains(in.Fins, gsim.CtrlName):
			// the finalizer removal function refuses for this input: the controller's finalizer stays, and so does the
			// output (c: a torn-down input whose output is gone no longer carries the finalizer). Outputs are only
			// ever removed by the controller, so an output it removed while the input was already waiting like this
			// leaves an input that can never be destroyed.
			if out != nil {
				v.Label("output-kept-while-finalizer-removal-refused")

				v.NonTrivial = true

				continue
			}

			cur := map[model.Key]*model.Res{}

			for _, e := range r.Log {
				if i := cur[gsim.InKey(id)]; e.Commit.Kind == model.Destroyed && e.Commit.New.Key == gsim.OutKey(id) && e.Via == "rt" &&
					i != nil && i.Phase == 1 && slices.Contains(i.Fins, gsim.CtrlName) {
					v.Failf("%s (c) torn-down input %s still carries the controller's finalizer (its removal function refuses) but the controller destroyed its output meanwhile: the input can never be destroyed; log: %s", ctx, in, tail(r.Log))

					break
				}

				if e.Commit.Kind == model.Destroyed {
					delete(cur, e.Commit.New.Key)
				} else {
					cur[e.Commit.New.Key] = e.Commit.New
				}
			}
		default:
			// (a) no orphan output unless held by a foreign finalizer the script still holds
			if out != nil && out.Owner == gsim.CtrlName && !heldOut(id) {
				v.Failf("%s (a) output %s remains although its input is %s (not live) and no external finalizer holds it; log: %s", ctx, out, in, tail(r.Log))
			}

			// (c) a torn-down input whose output is gone no longer carries the controller's finalizer (unless the
			// controller options make it ignore that teardown: then it holds the input like a running one)
			if in != nil && in.Phase == 1 && out == nil && !gsim.TreatedAsRunning(p, in) {
				if slices.Contains(in.Fins, gsim.CtrlName) {
					v.Failf("%s (c) torn-down input %s still carries the controller's finalizer although its output is gone; log: %s", ctx, in, tail(r.Log))
				}

				foreign := false

				for _, f := range in.Fins {
					if f != gsim.CtrlName {
						foreign = true
					}
				}

				if e, tried := r.InputDestroyErr[id]; tried && e != "" && !foreign {
					v.Failf("%s (c) torn-down input %s could not be destroyed by its owner: %s", ctx, in, e)
				}
			}
		}
	}

	// non-triviality
	recreated := false

	for i, e := range r.Log {
		if e.Commit.Kind == model.Created && e.Commit.New.Typ == hres.TypeGA && e.Via == "ext" {
			if o := gsim.StateAt(r.Log, i)[gsim.OutKey(e.Commit.New.ID)]; o != nil {
				recreated = true
			}
		}
	}

	if recreated {
		v.NonTrivial = true

		v.Label("input-recreated-while-old-output-exists")
	}

	if r.WritesInFlight > 0 {
		v.NonTrivial = true

		v.Label("external-write-during-transform")
	}

	if len(p.ErrPattern) > 0 && r.Transforms > p.ErrPattern[0] {
		v.Label("transform-error-hit")
	}

	v.Outcome = fmt.Sprintf("%s %d commits %d transforms", p.Ctrl, len(r.Log), r.Transforms)

	return v
}

func tail(log []sim.LogEntry) string {
	if len(log) > 40 {
		return "... " + sim.DescribeLog(log[len(log)-40:], 40)
	}

	return sim.DescribeLog(log, 40)
}

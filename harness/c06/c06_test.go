//go:debug randseednop=0
package c06

import (
	"testing"

	"verifharness/gsim"
	"verifharness/hk"
)

func TestMain(m *testing.M) { hk.Main(m, "C06") }

func TestS3(t *testing.T) {
	hk.RunSub(t, hk.Sub[gsim.Plan]{Name: "s3/generic", Quick: 4000, Thorough: 24000, Gen: gsim.Gen(AllCtrls), Run: Run, Journal: true})
}

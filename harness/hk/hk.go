// Package hk is the harness kit shared by every property package: it runs a property as
// "draw a plain-data plan with rapid, then run(plan) -> Verdict", collects evidence
// statistics, writes JSON replay files for failing plans and replays them without rapid.
package hk

import (
	"encoding/json"
	"flag"
	"fmt"
	"hash/fnv"
	"os"
	"path/filepath"
	"regexp"
	"runtime/debug"
	"sort"
	"strconv"
	"strings"
	"sync"
	"testing"

	"pgregory.net/rapid"
)

// Verdict is the outcome of running one plan.
type Verdict struct {
	// Fail is empty when the property held on this plan.
	Fail string `json:"fail,omitempty"`
	// Labels classify the case (generator coverage).
	Labels []string `json:"labels,omitempty"`
	// NonTrivial says whether the case satisfies the property's stated non-triviality rule.
	NonTrivial bool `json:"nontrivial"`
	// Inconclusive marks a case whose oracle could not decide (budget), never a violation.
	Inconclusive bool `json:"inconclusive,omitempty"`
	// Outcome is a short free-form summary stored with samples.
	Outcome string `json:"outcome,omitempty"`
}

// Failf builds a failing verdict.
func (v *Verdict) Failf(format string, args ...any) {
	if v.Fail == "" {
		v.Fail = fmt.Sprintf(format, args...)
	}
}

// Label adds a class label once.
func (v *Verdict) Label(l string) {
	for _, x := range v.Labels {
		if x == l {
			return
		}
	}

	v.Labels = append(v.Labels, l)
}

// Sub is one generated check of a property.
type Sub[P any] struct {
	Name     string
	Quick    int // cases in the quick tier
	Thorough int // cases per shard in the thorough tier
	Gen      func(*rapid.T) P
	Run      func(P) Verdict
	Journal  bool // write the plan to the journal before running (process may die)
}

type subStats struct {
	Evaluations  int            `json:"evaluations"`
	NonTrivial   int            `json:"nontrivial"`
	Inconclusive int            `json:"inconclusive"`
	Labels       map[string]int `json:"labels"`
	Samples      []sample       `json:"samples"`
	Hashes       []string       `json:"hashes"`
	Failed       string         `json:"failed,omitempty"`
	Exhaustive   bool           `json:"exhaustive,omitempty"`
	hashSet      map[uint64]struct{}
	frozen       bool
}

type sample struct {
	Sub     string          `json:"sub"`
	Plan    json.RawMessage `json:"plan"`
	Labels  []string        `json:"labels,omitempty"`
	Outcome string          `json:"outcome,omitempty"`
}

// ReplayFile is the on-disk form of a failing (or regression) plan.
type ReplayFile struct {
	Property string          `json:"property"`
	Sub      string          `json:"sub"`
	Fail     string          `json:"fail,omitempty"`
	Plan     json.RawMessage `json:"plan"`
}

var (
	mu       sync.Mutex
	stats    = map[string]*subStats{}
	property string
	replays  []string // replay files written by this process
)

// Env accessors.
func envInt(name string, def int) int {
	if s := os.Getenv(name); s != "" {
		if v, err := strconv.Atoi(s); err == nil {
			return v
		}
	}

	return def
}

// Tier returns "quick" or "thorough".
func Tier() string {
	if os.Getenv("VERIF_TIER") == "thorough" {
		return "thorough"
	}

	return "quick"
}

// Seed is the VERIF_SEED value.
func Seed() int { return envInt("VERIF_SEED", 1) }

// Shard is the shard index of this process.
func Shard() int { return envInt("VERIF_SHARD", 0) }

// OutDir is where statistics, journals and replay files go.
func OutDir() string {
	d := os.Getenv("VERIF_OUT")
	if d == "" {
		d = filepath.Join(os.TempDir(), "verif-out")
	}

	_ = os.MkdirAll(d, 0o755)

	return d
}

func scale() float64 {
	if s := os.Getenv("VERIF_SCALE"); s != "" {
		if v, err := strconv.ParseFloat(s, 64); err == nil {
			return v
		}
	}

	return 1
}

// Cases returns the number of cases for the current tier.
func Cases(quick, thorough int) int {
	n := quick
	if Tier() == "thorough" {
		n = thorough
	}

	n = int(float64(n) * scale())
	if n < 1 {
		n = 1
	}

	return n
}

func subSeed(name string) uint64 {
	h := fnv.New32a()
	h.Write([]byte(name))

	s := uint64(Seed())*1000003 + uint64(Shard())*7919 + uint64(h.Sum32()%1000) + 1

	return s
}

// Known findings -------------------------------------------------------------

// Finding is one entry of known_findings.json.
type Finding struct {
	Property string `json:"property"`
	ID       string `json:"id"`     // stable name used by generators to exclude the shape
	Status   string `json:"status"` // "open" or "fixed"
	What     string `json:"what"`
	Replay   string `json:"replay,omitempty"`
	Commit   string `json:"commit,omitempty"`
}

var (
	knownOnce sync.Once
	knownOpen = map[string]bool{}
)

// KnownOpen reports whether the finding with the given id is listed as open (unrepaired);
// generators use it to exclude the listed shape by construction.
func KnownOpen(id string) bool {
	knownOnce.Do(func() {
		p := os.Getenv("VERIF_KNOWN")
		if p == "" {
			p = "/verif/known_findings.json"
		}

		b, err := os.ReadFile(p)
		if err != nil {
			return
		}

		var doc struct {
			Findings []Finding `json:"findings"`
		}

		if json.Unmarshal(b, &doc) != nil {
			return
		}

		for _, f := range doc.Findings {
			if f.Status == "open" {
				knownOpen[f.ID] = true
			}
		}
	})

	if os.Getenv("VERIF_NO_EXCLUDE") != "" {
		return false
	}

	return knownOpen[id]
}

// ------------------------------------------------------------------------------

func getStats(name string) *subStats {
	s := stats[name]
	if s == nil {
		s = &subStats{Labels: map[string]int{}, hashSet: map[uint64]struct{}{}}
		stats[name] = s
	}

	return s
}

func record(name string, planJSON []byte, v Verdict) {
	mu.Lock()
	defer mu.Unlock()

	s := getStats(name)
	if s.frozen {
		return
	}

	s.Evaluations++

	if v.Inconclusive {
		s.Inconclusive++
	}

	for _, l := range v.Labels {
		s.Labels[l]++
	}

	if v.NonTrivial {
		h := fnv.New64a()
		h.Write(planJSON)
		k := h.Sum64()

		if _, ok := s.hashSet[k]; !ok {
			s.hashSet[k] = struct{}{}
			s.NonTrivial++

			if len(s.Samples) < 3 && len(planJSON) < 6000 {
				s.Samples = append(s.Samples, sample{Sub: name, Plan: append([]byte(nil), planJSON...), Labels: v.Labels, Outcome: v.Outcome})
			}
		}
	}
}

func freeze(name, fail string) {
	mu.Lock()
	defer mu.Unlock()

	s := getStats(name)
	s.frozen = true

	if s.Failed == "" {
		s.Failed = fail
	}
}

func safeName(s string) string {
	return regexp.MustCompile(`[^A-Za-z0-9_.-]+`).ReplaceAllString(s, "_")
}

func writeReplay(sub string, planJSON []byte, fail string, kind string) string {
	rf := ReplayFile{Property: property, Sub: sub, Fail: fail, Plan: planJSON}

	b, _ := json.MarshalIndent(rf, "", " ")
	p := filepath.Join(OutDir(), fmt.Sprintf("replay-%s-%s-s%d-%s.json", property, safeName(sub), Shard(), kind))
	_ = os.WriteFile(p, b, 0o644)

	return p
}

// safeRun runs the plan, converting a panic in the harness goroutine into a failing verdict.
func safeRun[P any](run func(P) Verdict, p P) (v Verdict) {
	defer func() {
		if r := recover(); r != nil {
			v.Fail = fmt.Sprintf("panic: %v\n%s", r, trimStack(string(debug.Stack())))
		}
	}()

	return run(p)
}

func trimStack(s string) string {
	lines := strings.Split(s, "\n")
	if len(lines) > 60 {
		lines = lines[:60]
	}

	return strings.Join(lines, "\n")
}

// RunSub executes one sub-check: replay mode, or rapid-driven generation.
func RunSub[P any](t *testing.T, s Sub[P]) {
	t.Helper()

	if rp := os.Getenv("VERIF_REPLAY"); rp != "" {
		runReplay(t, s, rp)

		return
	}

	if only := os.Getenv("VERIF_ONLY"); only != "" {
		if ok, _ := regexp.MatchString(only, s.Name); !ok {
			return
		}
	}

	n := Cases(s.Quick, s.Thorough)

	_ = flag.Set("rapid.checks", strconv.Itoa(n))
	_ = flag.Set("rapid.seed", strconv.FormatUint(subSeed(s.Name), 10))
	_ = flag.Set("rapid.nofailfile", "true")

	if st := os.Getenv("VERIF_SHRINKTIME"); st != "" {
		_ = flag.Set("rapid.shrinktime", st)
	}

	mu.Lock()
	getStats(s.Name)
	mu.Unlock()

	t.Run(s.Name, func(t *testing.T) {
		var firstFail string

		curT = t

		rapid.Check(t, func(rt *rapid.T) {
			p := s.Gen(rt)

			pj, err := json.Marshal(p)
			if err != nil {
				rt.Fatalf("plan not serialisable: %v", err)
			}

			if s.Journal {
				_ = os.WriteFile(filepath.Join(OutDir(), fmt.Sprintf("journal-s%d.json", Shard())),
					mustJSON(ReplayFile{Property: property, Sub: s.Name, Plan: pj}), 0o644)
			}

			v := safeRun(s.Run, p)

			record(s.Name, pj, v)

			if v.Fail != "" {
				if firstFail == "" {
					firstFail = v.Fail
					writeReplay(s.Name, pj, v.Fail, "first")
				}

				freeze(s.Name, v.Fail)

				path := writeReplay(s.Name, pj, v.Fail, "min")

				mu.Lock()
				found := false

				for _, r := range replays {
					if r == path {
						found = true
					}
				}

				if !found {
					replays = append(replays, path)
				}
				mu.Unlock()

				rt.Fatalf("%s", v.Fail)
			}
		})
	})
}

// RunEnum runs a finite list of plans completely (an enumerated sub-space); same recording as RunSub.
func RunEnum[P any](t *testing.T, name string, plans []P, run func(P) Verdict) {
	t.Helper()

	if rp := os.Getenv("VERIF_REPLAY"); rp != "" {
		runReplay(t, Sub[P]{Name: name, Run: run}, rp)

		return
	}

	if only := os.Getenv("VERIF_ONLY"); only != "" {
		if ok, _ := regexp.MatchString(only, name); !ok {
			return
		}
	}

	mu.Lock()
	getStats(name).Exhaustive = true
	mu.Unlock()

	t.Run(name, func(t *testing.T) {
		curT = t

		for _, p := range plans {
			pj, _ := json.Marshal(p)
			v := safeRun(run, p)

			record(name, pj, v)

			if v.Fail != "" {
				freeze(name, v.Fail)

				path := writeReplay(name, pj, v.Fail, "min")

				mu.Lock()
				replays = append(replays, path)
				mu.Unlock()

				t.Fatalf("%s", v.Fail)
			}
		}
	})
}

func mustJSON(v any) []byte {
	b, _ := json.Marshal(v)

	return b
}

func runReplay[P any](t *testing.T, s Sub[P], path string) {
	t.Helper()

	b, err := os.ReadFile(path)
	if err != nil {
		t.Fatalf("cannot read replay %s: %v", path, err)
	}

	var rf ReplayFile
	if err := json.Unmarshal(b, &rf); err != nil {
		t.Fatalf("cannot parse replay %s: %v", path, err)
	}

	if rf.Sub != s.Name {
		return
	}

	mu.Lock()
	replayMatched = true
	mu.Unlock()

	t.Run(s.Name, func(t *testing.T) {
		var p P

		curT = t

		dec := json.NewDecoder(strings.NewReader(string(rf.Plan)))
		if err := dec.Decode(&p); err != nil {
			t.Fatalf("cannot decode plan: %v", err)
		}

		times := envInt("VERIF_REPLAY_TIMES", 1)

		for i := 0; i < times; i++ {
			v := safeRun(s.Run, p)
			record(s.Name, rf.Plan, v)

			if v.Fail != "" {
				fmt.Printf("REPLAY-FAIL property=%s sub=%s: %s\n", property, s.Name, firstLine(v.Fail))
				t.Fatalf("replay failed: %s", v.Fail)
			}
		}

		fmt.Printf("REPLAY-PASS property=%s sub=%s\n", property, s.Name)
	})
}

var replayMatched bool

var curT *testing.T

// T returns the *testing.T of the running sub-check (needed by synctest.Test).
func T() *testing.T { return curT }

func firstLine(s string) string {
	if i := strings.IndexByte(s, '\n'); i >= 0 {
		return s[:i]
	}

	return s
}

// Main is called from TestMain of every property package.
func Main(m *testing.M, prop string) {
	property = prop

	code := m.Run()

	mu.Lock()
	defer mu.Unlock()

	if os.Getenv("VERIF_REPLAY") != "" && !replayMatched {
		fmt.Printf("REPLAY-NOSUB property=%s\n", prop)

		if code == 0 {
			code = 3
		}
	}

	out := struct {
		Property string               `json:"property"`
		Shard    int                  `json:"shard"`
		Seed     int                  `json:"seed"`
		Tier     string               `json:"tier"`
		Subs     map[string]*subStats `json:"subs"`
		Replays  []string             `json:"replays"`
	}{Property: prop, Shard: Shard(), Seed: Seed(), Tier: Tier(), Subs: stats, Replays: replays}

	for _, s := range stats {
		s.Hashes = s.Hashes[:0]
		for h := range s.hashSet {
			s.Hashes = append(s.Hashes, strconv.FormatUint(h, 36))
		}

		sort.Strings(s.Hashes)
	}

	b, _ := json.Marshal(out)
	_ = os.WriteFile(filepath.Join(OutDir(), fmt.Sprintf("stats-s%d.json", Shard())), b, 0o644)

	os.Exit(code)
}

package sim

import (
	"context"
	"errors"
	"fmt"
	"sort"
	"sync"
	"testing/synctest"

	"github.com/cosi-project/runtime/pkg/resource"
	"github.com/cosi-project/runtime/pkg/state"

	"verifharness/model"
)

// Gate is a parked step of an actor: an underlying store call or a watch hand-over.
type Gate struct {
	ID      int
	Actor   string
	Op      string // Get List Create Update Destroy Watch WatchKind WatchKindAggregated deliver
	Key     model.Key
	Info    string
	release chan bool // true = proceed, false = abort (shutdown)
}

func (g *Gate) String() string { return fmt.Sprintf("%s:%s(%s)%s", g.Actor, g.Op, g.Key, g.Info) }

// Call is the record of one underlying store call made through the gate proxy.
type Call struct {
	Actor     string
	Op        string
	Key       model.Key
	Err       error
	Class     model.ErrClass
	Result    *model.Res // Get result, or value written by Create/Update, or value removed by Destroy
	CommitIdx int        // index in Commits of the commit this call made, -1 if none
	At        int        // number of commits before the call ran
	Step      int        // scheduler step at which the call ran
}

// Handover is the record of a watch event handed to an actor.
type Handover struct {
	Actor string
	Key   model.Key
	Event state.Event
	Batch []state.Event
	At    int // number of commits at hand-over time
	Step  int
}

// Sched is the harness-owned scheduler. All actors talk to the store through Proxy().
type Sched struct {
	mu      sync.Mutex
	parked  []*Gate
	nextID  int
	closing bool

	Inner   state.CoreState
	Cur     map[model.Key]*model.Res // current contents as reconstructed from commits
	Commits []model.Commit
	Calls   []Call
	Hands   []Handover
	Trace   []string
	Step    int

	// OnCommit is invoked (scheduler lock held) after each commit is logged.
	OnCommit func(idx int, c model.Commit)
}

// NewSched creates a scheduler over inner.
func NewSched(inner state.CoreState) *Sched {
	return &Sched{Inner: inner, Cur: map[model.Key]*model.Res{}}
}

func (s *Sched) park(ctx context.Context, actor, op string, key model.Key, info string) bool {
	s.mu.Lock()

	if s.closing {
		s.mu.Unlock()

		return false
	}

	g := &Gate{ID: s.nextID, Actor: actor, Op: op, Key: key, Info: info, release: make(chan bool, 1)}
	s.nextID++
	s.parked = append(s.parked, g)
	s.mu.Unlock()

	select {
	case ok := <-g.release:
		return ok
	case <-ctx.Done():
		s.mu.Lock()
		for i, p := range s.parked {
			if p == g {
				s.parked = append(s.parked[:i], s.parked[i+1:]...)

				break
			}
		}
		s.mu.Unlock()

		return false
	}
}

// Enabled returns the parked gates in canonical order. Call only after synctest.Wait().
func (s *Sched) Enabled() []*Gate {
	s.mu.Lock()
	defer s.mu.Unlock()

	out := append([]*Gate(nil), s.parked...)
	sort.SliceStable(out, func(i, j int) bool {
		if out[i].Actor != out[j].Actor {
			return out[i].Actor < out[j].Actor
		}

		if out[i].Op != out[j].Op {
			return out[i].Op < out[j].Op
		}

		if out[i].Key != out[j].Key {
			return out[i].Key.String() < out[j].Key.String()
		}

		return out[i].ID < out[j].ID
	})

	return out
}

// Release lets one gate proceed.
func (s *Sched) Release(g *Gate) {
	s.mu.Lock()
	for i, p := range s.parked {
		if p == g {
			s.parked = append(s.parked[:i], s.parked[i+1:]...)

			break
		}
	}

	s.Step++
	s.Trace = append(s.Trace, g.String())
	s.mu.Unlock()

	g.release <- true
}

// Shutdown aborts every parked gate and refuses new ones.
func (s *Sched) Shutdown() {
	s.mu.Lock()
	s.closing = true
	p := s.parked
	s.parked = nil
	s.mu.Unlock()

	for _, g := range p {
		g.release <- false
	}
}

// RunChoices drives the schedule: after every quiescence pick the enabled gate selected by
// the next choice. It stops when no gate is enabled or choices/maxSteps run out; it returns
// true if it stopped because nothing was enabled. filter (optional) restricts the gates that
// may be chosen at a step.
func (s *Sched) RunChoices(choices []int, maxSteps int, filter func([]*Gate) []*Gate) bool {
	for i := 0; i < maxSteps; i++ {
		synctest.Wait()

		gates := s.Enabled()
		if filter != nil {
			gates = filter(gates)
		}

		if len(gates) == 0 {
			return true
		}

		c := 0
		if i < len(choices) {
			c = choices[i]
		}

		if c < 0 {
			c = -c
		}

		s.Release(gates[c%len(gates)])
	}

	synctest.Wait()

	return len(s.Enabled()) == 0
}

// Proxy returns the gated view of the store for an actor.
func (s *Sched) Proxy(actor string) *GateState {
	return &GateState{s: s, actor: actor, FailWatchAfter: -1}
}

// GateState is a state.CoreState whose every call and watch hand-over is a scheduler step.
type GateState struct {
	s     *Sched
	actor string
	// FailWatchAfter, when >= 0, makes every single-resource or kind watch opened through this proxy fail: after that
	// many delivered events the next hand-over is an Errored event and nothing follows (as after a buffer overrun or a
	// broken transport).
	FailWatchAfter int
}

// ErrInjectedWatchFailure is the error carried by an injected Errored event.
var ErrInjectedWatchFailure = errors.New("injected watch failure")

var _ state.CoreState = (*GateState)(nil)

func keyOfPtr(p resource.Pointer) model.Key {
	return model.Key{NS: p.Namespace(), Typ: p.Type(), ID: p.ID()}
}

func (g *GateState) record(c Call) {
	g.s.mu.Lock()
	defer g.s.mu.Unlock()

	c.Actor = g.actor
	c.Step = g.s.Step
	c.Class = model.Classify(c.Err)
	g.s.Calls = append(g.s.Calls, c)
}

func (g *GateState) commit(c model.Commit) int {
	// caller holds no lock
	g.s.mu.Lock()
	defer g.s.mu.Unlock()

	g.s.Commits = append(g.s.Commits, c)
	idx := len(g.s.Commits) - 1

	switch c.Kind {
	case model.Created, model.Updated:
		g.s.Cur[c.New.Key] = c.New.Clone()
	case model.Destroyed:
		delete(g.s.Cur, c.New.Key)
	}

	if g.s.OnCommit != nil {
		g.s.OnCommit(idx, c)
	}

	return idx
}

func (g *GateState) ncommits() int {
	g.s.mu.Lock()
	defer g.s.mu.Unlock()

	return len(g.s.Commits)
}

func (g *GateState) cur(k model.Key) *model.Res {
	g.s.mu.Lock()
	defer g.s.mu.Unlock()

	return g.s.Cur[k].Clone()
}

// Get implements state.CoreState.
func (g *GateState) Get(ctx context.Context, p resource.Pointer, o ...state.GetOption) (resource.Resource, error) { //nolint:ireturn
	k := keyOfPtr(p)
	if !g.s.park(ctx, g.actor, "Get", k, "") {
		return nil, context.Canceled
	}

	at := g.ncommits()
	r, err := g.s.Inner.Get(ctx, p, o...)
	c := Call{Op: "Get", Key: k, Err: err, CommitIdx: -1, At: at}

	if err == nil {
		c.Result = model.FromResource(r)
	}

	g.record(c)

	return r, err
}

// List implements state.CoreState.
func (g *GateState) List(ctx context.Context, kind resource.Kind, o ...state.ListOption) (resource.List, error) {
	k := model.Key{NS: kind.Namespace(), Typ: kind.Type()}
	if !g.s.park(ctx, g.actor, "List", k, "") {
		return resource.List{}, context.Canceled
	}

	at := g.ncommits()
	l, err := g.s.Inner.List(ctx, kind, o...)
	g.record(Call{Op: "List", Key: k, Err: err, CommitIdx: -1, At: at})

	return l, err
}

// Create implements state.CoreState.
func (g *GateState) Create(ctx context.Context, r resource.Resource, o ...state.CreateOption) error {
	k := keyOfPtr(r.Metadata())
	if !g.s.park(ctx, g.actor, "Create", k, "") {
		return context.Canceled
	}

	at := g.ncommits()
	err := g.s.Inner.Create(ctx, r, o...)
	c := Call{Op: "Create", Key: k, Err: err, CommitIdx: -1, At: at}

	if err == nil {
		c.Result = model.FromResource(r)
		c.CommitIdx = g.commit(model.Commit{Kind: model.Created, New: c.Result.Clone()})
	}

	g.record(c)

	return err
}

// Update implements state.CoreState.
func (g *GateState) Update(ctx context.Context, r resource.Resource, o ...state.UpdateOption) error {
	k := keyOfPtr(r.Metadata())
	if !g.s.park(ctx, g.actor, "Update", k, "") {
		return context.Canceled
	}

	at := g.ncommits()
	old := g.cur(k)
	err := g.s.Inner.Update(ctx, r, o...)
	c := Call{Op: "Update", Key: k, Err: err, CommitIdx: -1, At: at}

	if err == nil {
		c.Result = model.FromResource(r)
		c.CommitIdx = g.commit(model.Commit{Kind: model.Updated, New: c.Result.Clone(), Old: old})
	}

	g.record(c)

	return err
}

// Destroy implements state.CoreState.
func (g *GateState) Destroy(ctx context.Context, p resource.Pointer, o ...state.DestroyOption) error {
	k := keyOfPtr(p)
	if !g.s.park(ctx, g.actor, "Destroy", k, "") {
		return context.Canceled
	}

	at := g.ncommits()
	old := g.cur(k)
	err := g.s.Inner.Destroy(ctx, p, o...)
	c := Call{Op: "Destroy", Key: k, Err: err, CommitIdx: -1, At: at}

	if err == nil {
		c.Result = old
		if old == nil {
			old = &model.Res{Key: k}
		}

		c.CommitIdx = g.commit(model.Commit{Kind: model.Destroyed, New: old})
	}

	g.record(c)

	return err
}

func (g *GateState) handover(k model.Key, ev state.Event, batch []state.Event) {
	g.s.mu.Lock()
	defer g.s.mu.Unlock()

	g.s.Hands = append(g.s.Hands, Handover{Actor: g.actor, Key: k, Event: ev, Batch: batch, At: len(g.s.Commits), Step: g.s.Step})
}

// Watch implements state.CoreState: the call itself and every hand-over are scheduler steps.
func (g *GateState) Watch(ctx context.Context, p resource.Pointer, ch chan<- state.Event, o ...state.WatchOption) error {
	k := keyOfPtr(p)
	if !g.s.park(ctx, g.actor, "Watch", k, "") {
		return context.Canceled
	}

	at := g.ncommits()
	inner := make(chan state.Event)
	err := g.s.Inner.Watch(ctx, p, inner, o...)
	g.record(Call{Op: "Watch", Key: k, Err: err, CommitIdx: -1, At: at})

	if err != nil {
		return err
	}

	go g.forward(ctx, k, inner, ch)

	return nil
}

func (g *GateState) forward(ctx context.Context, k model.Key, inner <-chan state.Event, ch chan<- state.Event) {
	for n := 0; ; n++ {
		var ev state.Event

		if g.FailWatchAfter >= 0 && n == g.FailWatchAfter {
			if !g.s.park(ctx, g.actor, "deliver", k, ":Errored(injected)") {
				return
			}

			ev = state.Event{Type: state.Errored, Error: ErrInjectedWatchFailure}
			g.handover(k, ev, nil)

			select {
			case <-ctx.Done():
			case ch <- ev:
			}

			return
		}

		select {
		case <-ctx.Done():
			return
		case ev = <-inner:
		}

		if !g.s.park(ctx, g.actor, "deliver", k, ":"+ev.Type.String()) {
			return
		}

		g.handover(k, ev, nil)

		select {
		case <-ctx.Done():
			return
		case ch <- ev:
		}
	}
}

// WatchKind implements state.CoreState.
func (g *GateState) WatchKind(ctx context.Context, kind resource.Kind, ch chan<- state.Event, o ...state.WatchKindOption) error {
	k := model.Key{NS: kind.Namespace(), Typ: kind.Type()}
	if !g.s.park(ctx, g.actor, "WatchKind", k, "") {
		return context.Canceled
	}

	at := g.ncommits()
	inner := make(chan state.Event)
	err := g.s.Inner.WatchKind(ctx, kind, inner, o...)
	g.record(Call{Op: "WatchKind", Key: k, Err: err, CommitIdx: -1, At: at})

	if err != nil {
		return err
	}

	go g.forward(ctx, k, inner, ch)

	return nil
}

// WatchKindAggregated implements state.CoreState.
func (g *GateState) WatchKindAggregated(ctx context.Context, kind resource.Kind, ch chan<- []state.Event, o ...state.WatchKindOption) error {
	k := model.Key{NS: kind.Namespace(), Typ: kind.Type()}
	if !g.s.park(ctx, g.actor, "WatchKindAggregated", k, "") {
		return context.Canceled
	}

	at := g.ncommits()
	inner := make(chan []state.Event)
	err := g.s.Inner.WatchKindAggregated(ctx, kind, inner, o...)
	g.record(Call{Op: "WatchKindAggregated", Key: k, Err: err, CommitIdx: -1, At: at})

	if err != nil {
		return err
	}

	go func() {
		for {
			var evs []state.Event

			select {
			case <-ctx.Done():
				return
			case evs = <-inner:
			}

			if !g.s.park(ctx, g.actor, "deliver", k, fmt.Sprintf(":batch%d", len(evs))) {
				return
			}

			g.handover(k, state.Event{}, evs)

			select {
			case <-ctx.Done():
				return
			case ch <- evs:
			}
		}
	}()

	return nil
}

// Snapshot returns a copy of the recorded data (call after the schedule has finished).
func (s *Sched) Snapshot() (commits []model.Commit, calls []Call, hands []Handover) {
	s.mu.Lock()
	defer s.mu.Unlock()

	return append([]model.Commit(nil), s.Commits...), append([]Call(nil), s.Calls...), append([]Handover(nil), s.Hands...)
}

// NCommits returns the number of commits so far.
func (s *Sched) NCommits() int {
	s.mu.Lock()
	defer s.mu.Unlock()

	return len(s.Commits)
}

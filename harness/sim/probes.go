package sim

import (
	"context"
	"errors"
	"fmt"
	"slices"
	"sort"
	"sync"
	"time"

	"github.com/siderolabs/gen/optional"
	"go.uber.org/zap"

	"github.com/cosi-project/runtime/pkg/controller"
	"github.com/cosi-project/runtime/pkg/resource"
	"github.com/cosi-project/runtime/pkg/state"

	"verifharness/model"
)

// InSpec is a plain-data controller input.
type InSpec struct {
	NS   string `json:"ns"`
	Typ  string `json:"typ"`
	ID   string `json:"id"` // "" = by kind
	Kind int    `json:"kind"`
}

// ToInput converts.
func (i InSpec) ToInput() controller.Input {
	in := controller.Input{Namespace: i.NS, Type: i.Typ, Kind: i.Kind}
	if i.ID != "" {
		in.ID = optional.Some(i.ID)
	}

	return in
}

// OutSpec is a plain-data controller output.
type OutSpec struct {
	Typ  string `json:"typ"`
	Kind int    `json:"kind"`
}

// Obs is what a probe saw during one wake-up / reconcile.
type Obs struct {
	T      time.Duration
	End    time.Duration
	LogLen int                     // commit log length when the observation started
	Seen   map[string][]*model.Res // per input "ns/typ/id" -> contents read (nil slice + Missing for a not-found Get)
	Errs   map[string]string
	Key    model.Key // queue probe: the reconciled item
	Found  bool
	Job    string // "reconcile" | "map"
	Out    string // outcome of this invocation
}

func inKey(i InSpec) string { return i.NS + "/" + i.Typ + "/" + i.ID }

// Outcome scripts: the n-th invocation of a component takes Outcomes[n] (last one repeats... no: beyond the
// list everything is "ok").
type Outcomes []string // ok err panic requeue requeue-err skip

func (o Outcomes) at(n int) string {
	if n < len(o) {
		return o[n]
	}

	return "ok"
}

// PlainProbe is a controller.Controller that reads all its inputs on every wake-up and records them.
type PlainProbe struct {
	W       *World
	NameStr string
	Ins     []InSpec
	DeclIns []InSpec // when set: declared inputs (the probe then reads only Ins)
	Outs    []OutSpec
	Busy    time.Duration
	Late    []InSpec // inputs added through UpdateInputs on the LateAt-th wake-up (0 = never)
	LateAt  int
	// LateDrop lists indexes into Ins that the same UpdateInputs call drops (narrowing the declared inputs).
	LateDrop []int
	RunOut   Outcomes                                                              // outcome per wake-up: ok | err (Run returns error) | panic
	OnWake   func(ctx context.Context, r controller.Runtime, p *PlainProbe, n int) // extra work per wake-up

	mu               sync.Mutex
	Obs              []Obs
	Starts           []time.Duration // virtual times at which Run was (re)started
	wakes            int
	curIns           []InSpec
	rt               controller.Runtime
	active           int
	ResetBackoffOnOK bool
	// ErrKind selects what a scripted "err" outcome returns: 0 a plain error, 1 an error wrapping context.Canceled,
	// 2 an error wrapping context.DeadlineExceeded (as when an operation under a component's own sub-context gives
	// up) - in every case while the component's context is still alive.
	ErrKind int
	// TrackOutputs makes every wake-up a tracked reconcile cycle: StartTrackingOutputs first, CleanupOutputs over the
	// output kinds (namespace n1) when the cycle ends well. A failing or panicking cycle leaves the tracker armed:
	// the runtime has to reset it when Run exits. (CleanupOutputs also resets the restart backoff.)
	TrackOutputs bool
}

// ScriptedErr builds the error of a scripted failure (see ErrKind).
func ScriptedErr(kind int, msg string) error { return scriptedErr(kind, msg) }

func scriptedErr(kind int, msg string) error {
	switch kind {
	case 1:
		return fmt.Errorf("%s: %w (sub-operation gave up: %w)", msg, ErrScripted, context.Canceled)
	case 2:
		return fmt.Errorf("%s: %w (sub-operation gave up: %w)", msg, ErrScripted, context.DeadlineExceeded)
	}

	return fmt.Errorf("%s: %w", msg, ErrScripted)
}

var _ controller.Controller = (*PlainProbe)(nil)

// Name implements controller.Controller.
func (p *PlainProbe) Name() string { return p.NameStr }

// Inputs implements controller.Controller.
func (p *PlainProbe) Inputs() []controller.Input {
	decl := p.Ins
	if p.DeclIns != nil {
		decl = p.DeclIns
	}

	out := make([]controller.Input, 0, len(decl))
	for _, i := range decl {
		out = append(out, i.ToInput())
	}

	return out
}

// Outputs implements controller.Controller.
func (p *PlainProbe) Outputs() []controller.Output {
	out := make([]controller.Output, 0, len(p.Outs))
	for _, o := range p.Outs {
		out = append(out, controller.Output{Type: o.Typ, Kind: o.Kind})
	}

	return out
}

// Runtime returns the controller.Runtime captured when Run started (nil before).
func (p *PlainProbe) Runtime() controller.Runtime { //nolint:ireturn
	p.mu.Lock()
	defer p.mu.Unlock()

	return p.rt
}

// SetInputs replaces the inputs the probe reads (after an UpdateInputs issued by the harness).
func (p *PlainProbe) SetInputs(ins []InSpec) {
	p.mu.Lock()
	defer p.mu.Unlock()

	p.curIns = append([]InSpec{}, ins...)
}

// Active reports whether Run is currently executing.
func (p *PlainProbe) Active() bool {
	p.mu.Lock()
	defer p.mu.Unlock()

	return p.active > 0
}

// CurrentInputs returns the inputs currently declared (initial + late once applied).
func (p *PlainProbe) CurrentInputs() []InSpec {
	p.mu.Lock()
	defer p.mu.Unlock()

	if p.curIns == nil {
		return p.Ins
	}

	return p.curIns
}

// Snapshot returns copies of observations and start times.
func (p *PlainProbe) Snapshot() ([]Obs, []time.Duration) {
	p.mu.Lock()
	defer p.mu.Unlock()

	return append([]Obs(nil), p.Obs...), append([]time.Duration(nil), p.Starts...)
}

// ReadInputs reads every input through the given reader.
func ReadInputs(ctx context.Context, r controller.Reader, ins []InSpec) (map[string][]*model.Res, map[string]string) {
	seen := map[string][]*model.Res{}
	errs := map[string]string{}

	for _, in := range ins {
		k := inKey(in)

		if in.ID == "" {
			l, err := r.List(ctx, resource.NewMetadata(in.NS, in.Typ, "", resource.VersionUndefined))
			if err != nil {
				errs[k] = err.Error()

				continue
			}

			res := make([]*model.Res, 0, len(l.Items))
			for _, it := range l.Items {
				res = append(res, model.FromResource(it))
			}

			seen[k] = res
		} else {
			g, err := r.Get(ctx, resource.NewMetadata(in.NS, in.Typ, in.ID, resource.VersionUndefined))

			switch {
			case err == nil:
				seen[k] = []*model.Res{model.FromResource(g)}
			case state.IsNotFoundError(err):
				seen[k] = []*model.Res{}
			default:
				errs[k] = err.Error()
			}
		}
	}

	return seen, errs
}

// Run implements controller.Controller.
func (p *PlainProbe) Run(ctx context.Context, r controller.Runtime, _ *zap.Logger) error {
	p.mu.Lock()
	p.Starts = append(p.Starts, p.W.Now())
	p.rt = r
	p.active++
	p.mu.Unlock()

	defer func() {
		p.mu.Lock()
		p.active--
		p.mu.Unlock()
	}()

	for {
		select {
		case <-ctx.Done():
			return nil
		case <-r.EventCh():
		}

		p.W.Touch()

		if p.TrackOutputs {
			r.StartTrackingOutputs()
		}

		p.mu.Lock()
		n := p.wakes
		p.wakes++
		ins := p.curIns

		if ins == nil {
			ins = p.Ins
		}
		p.mu.Unlock()

		o := Obs{T: p.W.Now(), LogLen: p.W.NCommits()}

		if p.LateAt > 0 && n+1 == p.LateAt {
			all := []InSpec{}

			for idx, in := range p.Ins {
				if !slices.Contains(p.LateDrop, idx) {
					all = append(all, in)
				}
			}

			all = append(all, p.Late...)

			cins := make([]controller.Input, 0, len(all))
			for _, i := range all {
				cins = append(cins, i.ToInput())
			}

			if err := r.UpdateInputs(cins); err == nil {
				p.mu.Lock()
				p.curIns = all
				p.mu.Unlock()

				ins = all
				// the statement: added inputs are watched from now on; take the observation after the update
				o.LogLen = p.W.NCommits()
			}
		}

		if p.Busy > 0 {
			select {
			case <-ctx.Done():
				return nil
			case <-time.After(p.Busy):
			}
		}

		o.Seen, o.Errs = ReadInputs(ctx, r, ins)
		o.End = p.W.Now()
		o.Out = p.RunOut.at(n)

		if p.OnWake != nil {
			p.OnWake(ctx, r, p, n)
		}

		p.mu.Lock()
		p.Obs = append(p.Obs, o)
		p.mu.Unlock()

		switch o.Out {
		case "err":
			return scriptedErr(p.ErrKind, fmt.Sprintf("probe %s: scripted failure #%d", p.NameStr, n))
		case "panic":
			panic(fmt.Sprintf("probe %s: scripted panic #%d", p.NameStr, n))
		default:
			if p.TrackOutputs {
				kinds := make([]resource.Kind, 0, len(p.Outs))
				for _, out := range p.Outs {
					kinds = append(kinds, resource.NewMetadata("n1", out.Typ, "", resource.VersionUndefined))
				}

				if err := r.CleanupOutputs(ctx, kinds...); err != nil {
					return fmt.Errorf("probe %s: output cleanup: %w", p.NameStr, err)
				}
			}

			if p.ResetBackoffOnOK {
				r.ResetRestartBackoff()
			}
		}
	}
}

// QProbe is a controller.QController recording each Reconcile / MapInput invocation.
type QProbe struct {
	W        *World
	NameStr  string
	Ins      []InSpec
	Outs     []OutSpec
	Conc     uint
	ZeroConc bool // declare Concurrency = Some(0) (invalid)
	Busy     time.Duration
	// Mapper: mapped (typ,id) -> primary ids (of the first primary input)
	Mapper      map[string][]string
	RecOut      Outcomes // outcome per Reconcile invocation (global counter)
	MapOut      Outcomes
	HookOut     Outcomes // run hook outcomes; nil = no run hook
	Requeue     time.Duration
	OnReconcile func(ctx context.Context, r controller.QRuntime, ptr resource.Pointer, n int) error

	mu        sync.Mutex
	Obs       []Obs
	HookRuns  []time.Duration
	Shutdowns int
	nrec      int
	nmap      int
	nhook     int
	inflight  map[model.Key]int
	Overlaps  []string
	// ErrKind: see PlainProbe.ErrKind.
	ErrKind int
}

var _ controller.QController = (*QProbe)(nil)

// ErrScripted is returned by scripted failures.
var ErrScripted = errors.New("scripted failure")

// Name implements controller.QController.
func (q *QProbe) Name() string { return q.NameStr }

// Settings implements controller.QController.
func (q *QProbe) Settings() controller.QSettings {
	s := controller.QSettings{}

	for _, i := range q.Ins {
		s.Inputs = append(s.Inputs, i.ToInput())
	}

	for _, o := range q.Outs {
		s.Outputs = append(s.Outputs, controller.Output{Type: o.Typ, Kind: o.Kind})
	}

	if q.Conc > 0 {
		s.Concurrency = optional.Some(q.Conc)
	}

	if q.ZeroConc {
		s.Concurrency = optional.Some(uint(0))
	}

	if q.HookOut != nil {
		s.RunHook = func(ctx context.Context, _ *zap.Logger, _ controller.QRuntime) error {
			q.mu.Lock()
			n := q.nhook
			q.nhook++
			q.HookRuns = append(q.HookRuns, q.W.Now())
			q.mu.Unlock()

			q.W.Touch()

			switch q.HookOut.at(n) {
			case "err":
				return scriptedErr(q.ErrKind, "hook")
			case "panic":
				panic("scripted hook panic")
			case "long-err":
				select {
				case <-ctx.Done():
					return nil
				case <-time.After(2 * time.Minute):
				}

				return fmt.Errorf("hook after long run: %w", ErrScripted)
			}

			<-ctx.Done()

			return nil
		}
	}

	s.ShutdownHook = func() {
		q.mu.Lock()
		q.Shutdowns++
		q.mu.Unlock()
	}

	return s
}

// ShutdownCount returns how many times the shutdown hook ran.
func (q *QProbe) ShutdownCount() int {
	q.mu.Lock()
	defer q.mu.Unlock()

	return q.Shutdowns
}

// Snapshot copies the observations.
func (q *QProbe) Snapshot() []Obs {
	q.mu.Lock()
	defer q.mu.Unlock()

	return append([]Obs(nil), q.Obs...)
}

// Reconcile implements controller.QController.
func (q *QProbe) Reconcile(ctx context.Context, _ *zap.Logger, r controller.QRuntime, ptr resource.Pointer) error {
	k := model.Key{NS: ptr.Namespace(), Typ: ptr.Type(), ID: ptr.ID()}

	q.W.Touch()

	q.mu.Lock()
	n := q.nrec
	q.nrec++

	if q.inflight == nil {
		q.inflight = map[model.Key]int{}
	}

	q.inflight[k]++
	if q.inflight[k] > 1 {
		q.Overlaps = append(q.Overlaps, fmt.Sprintf("%s reconciled by %d workers at once at %s", k, q.inflight[k], q.W.Now()))
	}
	q.mu.Unlock()

	o := Obs{T: q.W.Now(), LogLen: q.W.NCommits(), Key: k, Job: "reconcile", Out: q.RecOut.at(n)}

	defer func() {
		o.End = q.W.Now()

		q.mu.Lock()
		q.inflight[k]--
		q.Obs = append(q.Obs, o)
		q.mu.Unlock()
	}()

	if q.Busy > 0 {
		select {
		case <-ctx.Done():
			o.Out = "cancelled"

			return nil
		case <-time.After(q.Busy):
		}
	}

	g, err := r.Get(ctx, ptr)

	switch {
	case err == nil:
		o.Found = true
		o.Seen = map[string][]*model.Res{"item": {model.FromResource(g)}}
	case state.IsNotFoundError(err):
		o.Seen = map[string][]*model.Res{"item": {}}
	default:
		o.Errs = map[string]string{"item": err.Error()}
	}

	if q.OnReconcile != nil {
		if err := q.OnReconcile(ctx, r, ptr, n); err != nil {
			return err
		}
	}

	switch o.Out {
	case "err":
		return scriptedErr(q.ErrKind, fmt.Sprintf("reconcile %s #%d", k, n))
	case "panic":
		panic(fmt.Sprintf("scripted reconcile panic %s #%d", k, n))
	case "requeue":
		return controller.NewRequeueInterval(q.Requeue)
	case "requeue-err":
		return controller.NewRequeueError(fmt.Errorf("reconcile %s #%d: %w", k, n, ErrScripted), q.Requeue)
	}

	return nil
}

// MapInput implements controller.QController.
func (q *QProbe) MapInput(_ context.Context, _ *zap.Logger, _ controller.QRuntime, md controller.ReducedResourceMetadata) ([]resource.Pointer, error) {
	q.W.Touch()

	q.mu.Lock()
	n := q.nmap
	q.nmap++
	q.mu.Unlock()

	o := Obs{T: q.W.Now(), End: q.W.Now(), LogLen: q.W.NCommits(), Key: model.Key{NS: md.Namespace(), Typ: md.Type(), ID: md.ID()}, Job: "map", Out: q.MapOut.at(n)}

	q.mu.Lock()
	q.Obs = append(q.Obs, o)
	q.mu.Unlock()

	switch o.Out {
	case "err":
		return nil, scriptedErr(q.ErrKind, fmt.Sprintf("map #%d", n))
	case "panic":
		panic("scripted map panic")
	}

	var prim *InSpec

	for i := range q.Ins {
		if q.Ins[i].Kind == controller.InputQPrimary {
			prim = &q.Ins[i]

			break
		}
	}

	if prim == nil {
		return nil, nil
	}

	ids := q.Mapper[md.Type()+"/"+md.ID()]
	sort.Strings(ids)

	out := make([]resource.Pointer, 0, len(ids))
	for _, id := range ids {
		out = append(out, resource.NewMetadata(prim.NS, prim.Typ, id, resource.VersionUndefined))
	}

	return out, nil
}

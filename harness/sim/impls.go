// Package sim holds execution substrates: state implementations, gRPC pairs, the gate
// scheduler and the virtual-time world.
package sim

import (
	"context"
	"errors"
	"fmt"
	"net"
	"os"
	"path/filepath"
	"sync"
	"sync/atomic"
	"time"

	"go.etcd.io/bbolt"
	"go.uber.org/zap"
	"google.golang.org/grpc"
	"google.golang.org/grpc/credentials/insecure"
	"google.golang.org/grpc/test/bufconn"

	"github.com/cosi-project/runtime/api/v1alpha1"
	"github.com/cosi-project/runtime/pkg/controller/runtime"
	"github.com/cosi-project/runtime/pkg/resource"
	"github.com/cosi-project/runtime/pkg/state"
	"github.com/cosi-project/runtime/pkg/state/impl/inmem"
	"github.com/cosi-project/runtime/pkg/state/impl/namespaced"
	"github.com/cosi-project/runtime/pkg/state/impl/store"
	"github.com/cosi-project/runtime/pkg/state/impl/store/bolt"
	"github.com/cosi-project/runtime/pkg/state/protobuf/client"
	"github.com/cosi-project/runtime/pkg/state/protobuf/server"

	"verifharness/hk"
)

// Impl is a constructed CoreState with its cleanup.
type Impl struct {
	State state.CoreState
	Close func()
	// MultiNS is false when the implementation serves a single namespace only.
	MultiNS bool
}

// ImplNames lists the implementations and wrappers of state.CoreState covered by S1 runs.
var ImplNames = []string{"inmem", "namespaced", "backed-mem", "backed-faulty", "bolt", "filter", "cached", "grpc"}

// ErrFaultyBacking is returned by the backing store of the "backed-faulty" implementation for every fifth write.
var ErrFaultyBacking = errors.New("injected backing store failure")

// FaultyBacking is a MemBacking that rejects every Mod-th Put/Destroy (before applying it).
type FaultyBacking struct {
	*MemBacking
	Mod int64
	n   atomic.Int64
}

// Put implements inmem.BackingStore.
func (b *FaultyBacking) Put(ctx context.Context, typ resource.Type, r resource.Resource) error {
	if b.n.Add(1)%b.Mod == 0 {
		return ErrFaultyBacking
	}

	return b.MemBacking.Put(ctx, typ, r)
}

// Destroy implements inmem.BackingStore.
func (b *FaultyBacking) Destroy(ctx context.Context, typ resource.Type, p resource.Pointer) error {
	if b.n.Add(1)%b.Mod == 0 {
		return ErrFaultyBacking
	}

	return b.MemBacking.Destroy(ctx, typ, p)
}

// MemBacking is an in-memory inmem.BackingStore used as the simplest persistent-backed variant.
type MemBacking struct {
	mu sync.Mutex
	M  map[string]resource.Resource
}

// NewMemBacking creates one.
func NewMemBacking() *MemBacking { return &MemBacking{M: map[string]resource.Resource{}} }

// Load implements inmem.BackingStore.
func (b *MemBacking) Load(_ context.Context, h inmem.LoadHandler) error {
	// like a bbolt read transaction: a consistent snapshot taken at the start, which does not block writers
	b.mu.Lock()
	snap := make([]resource.Resource, 0, len(b.M))

	for _, r := range b.M {
		snap = append(snap, r.DeepCopy())
	}
	b.mu.Unlock()

	for _, r := range snap {
		if err := h(r.Metadata().Type(), r); err != nil {
			return err
		}
	}

	return nil
}

// Put implements inmem.BackingStore.
func (b *MemBacking) Put(_ context.Context, typ resource.Type, r resource.Resource) error {
	b.mu.Lock()
	defer b.mu.Unlock()

	b.M[typ+"/"+r.Metadata().ID()] = r.DeepCopy()

	return nil
}

// Destroy implements inmem.BackingStore.
func (b *MemBacking) Destroy(_ context.Context, typ resource.Type, p resource.Pointer) error {
	b.mu.Lock()
	defer b.mu.Unlock()

	delete(b.M, typ+"/"+p.ID())

	return nil
}

var tmpCounter atomic.Int64

// TempPath returns a fresh path under the work directory (never /tmp when VERIF_OUT is set).
func TempPath(prefix string) string {
	return filepath.Join(hk.OutDir(), fmt.Sprintf("%s-%d-%d-%d", prefix, os.Getpid(), hk.Shard(), tmpCounter.Add(1)))
}

// OpenBolt opens a bbolt database at path.
func OpenBolt(path string) func() (*bbolt.DB, error) {
	return func() (*bbolt.DB, error) {
		return bbolt.Open(path, 0o600, &bbolt.Options{NoSync: true, NoFreelistSync: true, Timeout: 5 * time.Second})
	}
}

// GRPCPair is a client adapter connected to a server over an in-memory listener.
type GRPCPair struct {
	Adapter *client.Adapter
	Client  v1alpha1.StateClient
	Conn    *grpc.ClientConn
	Server  *grpc.Server
	Lis     *bufconn.Listener
}

// Close tears the pair down.
func (p *GRPCPair) Close() {
	_ = p.Conn.Close()
	p.Server.Stop()
	_ = p.Lis.Close()
}

// NewGRPCPair serves srv over bufconn and connects a client adapter.
func NewGRPCPair(srv v1alpha1.StateServer, copts []grpc.DialOption, aopts ...client.AdapterOption) (*GRPCPair, error) {
	lis := bufconn.Listen(1 << 20)
	gs := grpc.NewServer()
	v1alpha1.RegisterStateServer(gs, srv)

	go func() { _ = gs.Serve(lis) }()

	opts := append([]grpc.DialOption{
		grpc.WithContextDialer(func(ctx context.Context, _ string) (net.Conn, error) { return lis.DialContext(ctx) }),
		grpc.WithTransportCredentials(insecure.NewCredentials()),
	}, copts...)

	conn, err := grpc.NewClient("passthrough:///bufnet", opts...)
	if err != nil {
		gs.Stop()

		return nil, err
	}

	cl := v1alpha1.NewStateClient(conn)

	return &GRPCPair{Adapter: client.NewAdapter(cl, aopts...), Client: cl, Conn: conn, Server: gs, Lis: lis}, nil
}

// NewNamespaced builds namespaced(inmem) with the given inmem options.
func NewNamespaced(opts ...inmem.StateOption) *namespaced.State {
	b := inmem.NewStateWithOptions(opts...)

	return namespaced.NewState(func(ns resource.Namespace) state.CoreState { return b(ns) })
}

// Build constructs the named implementation.
func Build(name string) (*Impl, error) {
	switch name {
	case "inmem":
		return &Impl{State: inmem.NewState("n1"), Close: func() {}}, nil
	case "namespaced":
		return &Impl{State: NewNamespaced(), Close: func() {}, MultiNS: true}, nil
	case "backed-mem":
		st := namespaced.NewState(func(ns resource.Namespace) state.CoreState {
			return inmem.NewStateWithOptions(inmem.WithBackingStore(NewMemBacking()))(ns)
		})

		return &Impl{State: st, Close: func() {}, MultiNS: true}, nil
	case "backed-faulty":
		st := namespaced.NewState(func(ns resource.Namespace) state.CoreState {
			return inmem.NewStateWithOptions(inmem.WithBackingStore(&FaultyBacking{MemBacking: NewMemBacking(), Mod: 5}))(ns)
		})

		return &Impl{State: st, Close: func() {}, MultiNS: true}, nil
	case "bolt":
		path := TempPath("c01bolt") + ".db"

		bs, err := bolt.NewBackingStore(OpenBolt(path), store.ProtobufMarshaler{})
		if err != nil {
			return nil, err
		}

		st := namespaced.NewState(func(ns resource.Namespace) state.CoreState {
			return inmem.NewStateWithOptions(inmem.WithBackingStore(bs.WithNamespace(ns)))(ns)
		})

		return &Impl{State: st, Close: func() { _ = bs.Close(); _ = os.Remove(path) }, MultiNS: true}, nil
	case "filter":
		st := state.Filter(NewNamespaced(), func(context.Context, state.Access) error { return nil })

		return &Impl{State: st, Close: func() {}, MultiNS: true}, nil
	case "cached":
		rt, err := runtime.NewRuntime(state.WrapCore(NewNamespaced()), zap.NewNop())
		if err != nil {
			return nil, err
		}

		return &Impl{State: rt.CachedState(), Close: func() {}, MultiNS: true}, nil
	case "grpc":
		p, err := NewGRPCPair(server.NewState(NewNamespaced()), nil)
		if err != nil {
			return nil, err
		}

		return &Impl{State: p.Adapter, Close: p.Close, MultiNS: true}, nil
	}

	return nil, fmt.Errorf("unknown implementation %q", name)
}

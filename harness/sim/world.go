package sim

import (
	"context"
	"errors"
	"fmt"
	"slices"
	"sync"
	"testing/synctest"
	"time"

	"go.uber.org/zap"

	"github.com/cosi-project/runtime/pkg/controller/runtime"
	"github.com/cosi-project/runtime/pkg/controller/runtime/options"
	"github.com/cosi-project/runtime/pkg/resource"
	"github.com/cosi-project/runtime/pkg/state"
	"github.com/cosi-project/runtime/pkg/state/impl/inmem"

	"verifharness/model"
)

// LogEntry is one successful write observed by the recording proxy.
type LogEntry struct {
	T      time.Duration // virtual time since world start
	Via    string        // which proxy ("rt" = through the runtime, "ext" = external actor)
	Owner  string        // owner option of the call
	Commit model.Commit
}

// ErrInjected is the transient error injected by fault scripts.
var ErrInjected = errors.New("injected transient store error")

// World is the S3 substrate: real runtime + namespaced(inmem) behind a recording proxy, in a bubble.
type World struct {
	Ctx    context.Context //nolint:containedctx
	Cancel context.CancelFunc
	Inner  state.CoreState
	RT     *runtime.Runtime
	RTSt   *RecState // proxy handed to the runtime
	Ext    *RecState // proxy used by external actors
	Start  time.Time

	mu       sync.Mutex
	Log      []LogEntry
	Cur      map[model.Key]*model.Res
	activity int64

	runDone chan error

	// OnRunReturn, when set, is called in the goroutine that ran RT.Run immediately after it returned.
	OnRunReturn func()
}

// WorldOptions configure a world.
type WorldOptions struct {
	Cached     []model.Key // NS, Typ used
	Inmem      []inmem.StateOption
	RTLatency  func(op string, n int) time.Duration // latency before runtime-side calls
	// RTPostLatency: time between a runtime-side Create / Update taking effect and the call returning to its caller
	RTPostLatency func(op string, n int) time.Duration
	RTFault    func(op string, k model.Key, n int) error
	DelivDelay func(n int) time.Duration // delay before each aggregated watch batch is handed to the runtime; negative: delay, then coalesce the batches pending meanwhile
	// InjectErrored, when non-nil, is consulted for every batch delivered to the runtime: returning an error
	// replaces the batch by an Errored event.
	InjectErrored func(n int) error
}

// NewWorld builds the world (call inside a bubble). The runtime is not started.
func NewWorld(o WorldOptions) (*World, error) {
	ctx, cancel := context.WithCancel(context.Background())
	w := &World{Ctx: ctx, Cancel: cancel, Start: time.Now(), Cur: map[model.Key]*model.Res{}}
	w.Inner = NewNamespaced(o.Inmem...)
	w.RTSt = &RecState{w: w, via: "rt", latency: o.RTLatency, postLatency: o.RTPostLatency, fault: o.RTFault, delivDelay: o.DelivDelay, injectErrored: o.InjectErrored}
	w.Ext = &RecState{w: w, via: "ext"}

	var ropts []options.Option
	for _, c := range o.Cached {
		ropts = append(ropts, options.WithCachedResource(c.NS, c.Typ))
	}

	rt, err := runtime.NewRuntime(state.WrapCore(w.RTSt), zap.NewNop(), ropts...)
	if err != nil {
		cancel()

		return nil, err
	}

	w.RT = rt

	return w, nil
}

// Run starts the runtime in a goroutine.
func (w *World) Run() {
	w.runDone = make(chan error, 1)

	go func() {
		err := w.RT.Run(w.Ctx)

		if w.OnRunReturn != nil {
			w.OnRunReturn()
		}

		w.runDone <- err
	}()
}

// RunResult returns (finished, error) of RT.Run without blocking.
func (w *World) RunResult() (bool, error) {
	select {
	case err := <-w.runDone:
		w.runDone <- err

		return true, err
	default:
		return false, nil
	}
}

// Now returns virtual time since start.
func (w *World) Now() time.Duration { return time.Since(w.Start) }

// NCommits returns the commit log length.
func (w *World) NCommits() int {
	w.mu.Lock()
	defer w.mu.Unlock()

	return len(w.Log)
}

// Touch records harness-visible activity (reconcile invocations etc.) for quiescence detection.
func (w *World) Touch() {
	w.mu.Lock()
	w.activity++
	w.mu.Unlock()
}

func (w *World) act() int64 {
	w.mu.Lock()
	defer w.mu.Unlock()

	return w.activity + int64(len(w.Log))
}

// Quiesce advances virtual time in windows of 10 minutes until a whole window passes without any commit,
// store call or reconcile. It returns false if maxRounds windows were not enough.
func (w *World) Quiesce(maxRounds int) bool {
	for i := 0; i < maxRounds; i++ {
		synctest.Wait()

		before := w.act()

		time.Sleep(10 * time.Minute)
		synctest.Wait()

		if w.act() == before {
			return true
		}
	}

	return false
}

// QuiesceCommits advances virtual time until two consecutive 10-minute windows pass without any commit
// (store reads and failing reconciles may continue: a controller that keeps retrying against a resource held
// by a foreign finalizer never goes silent, yet the state has converged).
func (w *World) QuiesceCommits(maxRounds int) bool {
	still := 0

	for i := 0; i < maxRounds; i++ {
		synctest.Wait()

		before := w.NCommits()

		time.Sleep(10 * time.Minute)
		synctest.Wait()

		if w.NCommits() == before {
			still++

			if still >= 2 {
				return true
			}
		} else {
			still = 0
		}
	}

	return false
}

// Snapshot returns copies of the log and current contents.
func (w *World) Snapshot() ([]LogEntry, map[model.Key]*model.Res) {
	w.mu.Lock()
	defer w.mu.Unlock()

	cur := make(map[model.Key]*model.Res, len(w.Cur))
	for k, v := range w.Cur {
		cur[k] = v.Clone()
	}

	return append([]LogEntry(nil), w.Log...), cur
}

// Stop cancels the world and waits for the runtime to return; it reports whether Run returned.
func (w *World) Stop() (bool, error) {
	w.Cancel()
	synctest.Wait()

	if w.runDone == nil {
		return true, nil
	}

	return w.RunResult()
}

// RecState is the recording / latency / fault proxy.
type RecState struct {
	w             *World
	via           string
	latency       func(op string, n int) time.Duration
	postLatency   func(op string, n int) time.Duration
	npost         int
	fault         func(op string, k model.Key, n int) error
	delivDelay    func(n int) time.Duration
	injectErrored func(n int) error

	mu     sync.Mutex
	ncalls map[string]int
	nbatch int
}

var _ state.CoreState = (*RecState)(nil)

func (r *RecState) pre(ctx context.Context, op string, k model.Key) error {
	r.mu.Lock()

	if r.ncalls == nil {
		r.ncalls = map[string]int{}
	}

	n := r.ncalls[op]
	r.ncalls[op] = n + 1
	r.mu.Unlock()

	r.w.Touch()

	// Watch establishment happens under runtime mutexes; sleeping on the fake clock there would stall the bubble
	// (a goroutine waiting for a mutex is not durably blocked), so only data calls get latency.
	if r.latency != nil && op != "Watch" && op != "WatchKind" && op != "WatchKindAggregated" {
		if d := r.latency(op, n); d > 0 {
			select {
			case <-ctx.Done():
				return ctx.Err()
			case <-time.After(d):
			}
		}
	}

	if r.fault != nil {
		if err := r.fault(op, k, n); err != nil {
			return err
		}
	}

	return nil
}

func optOwnerCreate(o []state.CreateOption) string {
	var c state.CreateOptions
	for _, f := range o {
		f(&c)
	}

	return c.Owner
}

func optOwnerUpdate(o []state.UpdateOption) string {
	c := state.DefaultUpdateOptions()
	for _, f := range o {
		f(&c)
	}

	return c.Owner
}

func optOwnerDestroy(o []state.DestroyOption) string {
	var c state.DestroyOptions
	for _, f := range o {
		f(&c)
	}

	return c.Owner
}

// Get implements state.CoreState.
func (r *RecState) Get(ctx context.Context, p resource.Pointer, o ...state.GetOption) (resource.Resource, error) { //nolint:ireturn
	if err := r.pre(ctx, "Get", keyOfPtr(p)); err != nil {
		return nil, err
	}

	return r.w.Inner.Get(ctx, p, o...)
}

// List implements state.CoreState.
func (r *RecState) List(ctx context.Context, k resource.Kind, o ...state.ListOption) (resource.List, error) {
	if err := r.pre(ctx, "List", model.Key{NS: k.Namespace(), Typ: k.Type()}); err != nil {
		return resource.List{}, err
	}

	return r.w.Inner.List(ctx, k, o...)
}

// Create implements state.CoreState.
func (r *RecState) Create(ctx context.Context, res resource.Resource, o ...state.CreateOption) error {
	k := keyOfPtr(res.Metadata())
	if err := r.pre(ctx, "Create", k); err != nil {
		return err
	}

	r.w.mu.Lock()

	err := r.w.Inner.Create(ctx, res, o...)
	if err == nil {
		m := model.FromResource(res)
		r.w.Cur[k] = m
		r.w.Log = append(r.w.Log, LogEntry{T: time.Since(r.w.Start), Via: r.via, Owner: optOwnerCreate(o), Commit: model.Commit{Kind: model.Created, New: m.Clone()}})
	}

	r.w.mu.Unlock()
	r.post(ctx, "Create", err)

	return err
}

// post delays the return of a write that took effect (never under a lock: the fake clock only advances while
// every goroutine of the bubble is durably blocked).
func (r *RecState) post(ctx context.Context, op string, err error) {
	if err != nil || r.postLatency == nil {
		return
	}

	r.mu.Lock()
	n := r.npost
	r.npost++
	r.mu.Unlock()

	if d := r.postLatency(op, n); d > 0 {
		select {
		case <-ctx.Done():
		case <-time.After(d):
		}
	}
}

// Update implements state.CoreState.
func (r *RecState) Update(ctx context.Context, res resource.Resource, o ...state.UpdateOption) error {
	k := keyOfPtr(res.Metadata())
	if err := r.pre(ctx, "Update", k); err != nil {
		return err
	}

	r.w.mu.Lock()

	err := r.w.Inner.Update(ctx, res, o...)
	if err == nil {
		m := model.FromResource(res)
		old := r.w.Cur[k]
		r.w.Cur[k] = m
		r.w.Log = append(r.w.Log, LogEntry{T: time.Since(r.w.Start), Via: r.via, Owner: optOwnerUpdate(o), Commit: model.Commit{Kind: model.Updated, New: m.Clone(), Old: old.Clone()}})
	}

	r.w.mu.Unlock()
	r.post(ctx, "Update", err)

	return err
}

// Destroy implements state.CoreState.
func (r *RecState) Destroy(ctx context.Context, p resource.Pointer, o ...state.DestroyOption) error {
	k := keyOfPtr(p)
	if err := r.pre(ctx, "Destroy", k); err != nil {
		return err
	}

	r.w.mu.Lock()
	defer r.w.mu.Unlock()

	err := r.w.Inner.Destroy(ctx, p, o...)
	if err == nil {
		old := r.w.Cur[k]
		if old == nil {
			old = &model.Res{Key: k}
		}

		delete(r.w.Cur, k)
		r.w.Log = append(r.w.Log, LogEntry{T: time.Since(r.w.Start), Via: r.via, Owner: optOwnerDestroy(o), Commit: model.Commit{Kind: model.Destroyed, New: old.Clone()}})
	}

	return err
}

// Watch implements state.CoreState.
func (r *RecState) Watch(ctx context.Context, p resource.Pointer, ch chan<- state.Event, o ...state.WatchOption) error {
	if err := r.pre(ctx, "Watch", keyOfPtr(p)); err != nil {
		return err
	}

	return r.w.Inner.Watch(ctx, p, ch, o...)
}

// WatchKind implements state.CoreState.
func (r *RecState) WatchKind(ctx context.Context, k resource.Kind, ch chan<- state.Event, o ...state.WatchKindOption) error {
	if err := r.pre(ctx, "WatchKind", model.Key{NS: k.Namespace(), Typ: k.Type()}); err != nil {
		return err
	}

	return r.w.Inner.WatchKind(ctx, k, ch, o...)
}

// WatchKindAggregated implements state.CoreState; batches may be delayed or replaced by Errored.
func (r *RecState) WatchKindAggregated(ctx context.Context, k resource.Kind, ch chan<- []state.Event, o ...state.WatchKindOption) error {
	if err := r.pre(ctx, "WatchKindAggregated", model.Key{NS: k.Namespace(), Typ: k.Type()}); err != nil {
		return err
	}

	if r.delivDelay == nil && r.injectErrored == nil {
		return r.w.Inner.WatchKindAggregated(ctx, k, ch, o...)
	}

	inner := make(chan []state.Event)
	if err := r.w.Inner.WatchKindAggregated(ctx, k, inner, o...); err != nil {
		return err
	}

	go func() {
		for {
			var evs []state.Event

			select {
			case <-ctx.Done():
				return
			case evs = <-inner:
			}

			r.mu.Lock()
			n := r.nbatch
			r.nbatch++
			r.mu.Unlock()

			if r.delivDelay != nil {
				d := r.delivDelay(n)

				// a negative delay means: delay, then coalesce every batch that became pending meanwhile into this one
				// (the aggregated watch contract allows any batching of the ordered event sequence)
				coalesce := d < 0
				if coalesce {
					d = -d
				}

				if d > 0 {
					select {
					case <-ctx.Done():
						return
					case <-time.After(d):
					}
				}

				for coalesce {
					// let the producer reach its next send (the fake clock only advances once everything else is blocked)
					time.Sleep(time.Nanosecond)

					select {
					case more := <-inner:
						evs = append(slices.Clone(evs), more...)
					default:
						coalesce = false
					}
				}
			}

			if r.injectErrored != nil {
				if err := r.injectErrored(n); err != nil {
					evs = []state.Event{{Type: state.Errored, Error: err}}
				}
			}

			r.w.Touch()

			select {
			case <-ctx.Done():
				return
			case ch <- evs:
			}
		}
	}()

	return nil
}

// Describe renders a log for failure messages.
func DescribeLog(log []LogEntry, max int) string {
	s := ""

	for i, e := range log {
		if i >= max {
			s += fmt.Sprintf("... %d more", len(log)-max)

			break
		}

		s += fmt.Sprintf("#%d %s %s[%s] %s %s; ", i, e.T, e.Via, e.Owner, e.Commit.Kind, e.Commit.New)
	}

	return s
}

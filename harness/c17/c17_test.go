package c17

import (
	"testing"

	"verifharness/hk"
)

func TestMain(m *testing.M) { hk.Main(m, "C17") }

func TestS1(t *testing.T) {
	hk.RunSub(t, hk.Sub[Plan]{Name: "s1/registrations", Quick: 2000, Thorough: 20000, Gen: Gen, Run: Run, Journal: true})
}

//go:build verif

package c17

import (
	"fmt"
	"slices"
	"sort"
	"strings"

	"github.com/siderolabs/gen/optional"
	"pgregory.net/rapid"

	"github.com/cosi-project/runtime/pkg/controller"
	"github.com/cosi-project/runtime/pkg/controller/runtime/verifhooks"

	"verifharness/hk"
)

// WOp is one direct call on the dependency database.
type WOp struct {
	K    string `json:"k"` // addout delctrl addin delin
	C    int    `json:"c"`
	Typ  int    `json:"typ"`
	NS   int    `json:"ns"`
	ID   int    `json:"id"`   // 0 = by kind, 1.. = wIDs[id-1]
	Kind int    `json:"kind"` // input kind 0..5 / output kind 0..1
}

// WPlan is a white-box plan.
type WPlan struct {
	Ops []WOp `json:"ops"`
}

var (
	wNames = []string{"c0", "c1", "c2"}
	wTyps  = []string{"TA", "TB", "TC"}
	wNS    = []string{"n1", "n2"}
	wIDs   = []string{"a", "b"}
)

// GenW draws a white-box plan.
func GenW(t *rapid.T) WPlan {
	return WPlan{Ops: rapid.SliceOfN(rapid.Custom(func(t *rapid.T) WOp {
		return WOp{
			K:    rapid.SampledFrom([]string{"addout", "addout", "addout", "delctrl", "addin", "addin", "addin", "addin", "delin", "delin"}).Draw(t, "k"),
			C:    rapid.IntRange(0, len(wNames)-1).Draw(t, "c"),
			Typ:  rapid.SampledFrom([]int{0, 0, 0, 1, 1, 2}).Draw(t, "typ"),
			NS:   rapid.SampledFrom([]int{0, 0, 0, 1}).Draw(t, "ns"),
			ID:   rapid.IntRange(0, len(wIDs)).Draw(t, "id"),
			Kind: rapid.IntRange(0, 5).Draw(t, "kind"),
		}
	}), 1, 40).Draw(t, "ops")}
}

// EnumW enumerates every sequence of length n over a reduced alphabet (2 controllers x 2 types, one namespace, ids {kind, a}).
func EnumW(n int) []WPlan {
	var alphabet []WOp

	for c := 0; c < 2; c++ {
		alphabet = append(alphabet, WOp{K: "delctrl", C: c})

		for typ := 0; typ < 2; typ++ {
			for k := 0; k < 2; k++ {
				alphabet = append(alphabet, WOp{K: "addout", C: c, Typ: typ, Kind: k})
			}
		}

		for id := 0; id < 2; id++ {
			alphabet = append(alphabet, WOp{K: "addin", C: c, ID: id, Kind: 0}, WOp{K: "addin", C: c, ID: id, Kind: 1}, WOp{K: "delin", C: c, ID: id, Kind: 0})
		}
	}

	var out []WPlan

	var rec func(prefix []WOp)

	rec = func(prefix []WOp) {
		if len(prefix) == n {
			out = append(out, WPlan{Ops: slices.Clone(prefix)})

			return
		}

		for _, o := range alphabet {
			rec(append(prefix, o))
		}
	}

	rec(nil)

	return out
}

type wIn struct {
	NS, Typ, ID string
	ByID        bool
	Kind        int
}

type wModel struct {
	excl   map[string]string          // type -> controller
	shared map[string]map[string]bool // type -> controllers
	ins    map[string][]wIn           // controller -> inputs (unique by ns/type/id)
}

func (op WOp) input() controller.Input {
	in := controller.Input{Namespace: wNS[op.NS], Type: wTyps[op.Typ], Kind: controller.InputKind(op.Kind)}
	if op.ID > 0 {
		in.ID = optional.Some(wIDs[op.ID-1])
	}

	return in
}

func (op WOp) win() wIn {
	w := wIn{NS: wNS[op.NS], Typ: wTyps[op.Typ], Kind: op.Kind}
	if op.ID > 0 {
		w.ByID, w.ID = true, wIDs[op.ID-1]
	}

	return w
}

func sameKeys(a, b wIn) bool {
	return a.NS == b.NS && a.Typ == b.Typ && a.ByID == b.ByID && a.ID == b.ID
}

// RunW applies the plan to the real database and to the model, comparing results and every query after each step.
//
//nolint:gocyclo,gocognit,cyclop,maintidx
func RunW(p WPlan) (v hk.Verdict) {
	db, err := verifhooks.NewDependencyDatabase()
	if err != nil {
		v.Failf("harness: %v", err)

		return v
	}

	m := wModel{excl: map[string]string{}, shared: map[string]map[string]bool{}, ins: map[string][]wIn{}}

	// results handed out by the previous step: the runtime keeps using a routing result after the database lock is
	// released (deliverDeduplicatedEvents), so a later call must not change a result handed out earlier
	type heldResult struct {
		what string
		got  []string
		was  []string
	}

	var held []heldResult
	rejectedThenAccepted, rejected, deleted := false, false, false

	for i, op := range p.Ops {
		name := wNames[op.C]
		what := fmt.Sprintf("step %d %+v", i, op)

		switch op.K {
		case "addout":
			typ := wTyps[op.Typ]
			kind := op.Kind % 2
			gotErr := db.AddControllerOutput(name, controller.Output{Type: typ, Kind: kind})

			_, hasExcl := m.excl[typ]
			wantErr := hasExcl || (kind == controller.OutputExclusive && len(m.shared[typ]) > 0) || (kind == controller.OutputShared && m.shared[typ][name])

			if (gotErr != nil) != wantErr {
				v.Failf("%s: AddControllerOutput(%s, %s kind %d) returned %v, the model expects rejection=%v (exclusive holder %q, shared holders %v)", what, name, typ, kind, gotErr, wantErr, m.excl[typ], keys(m.shared[typ]))

				return v
			}

			if gotErr == nil {
				if kind == controller.OutputExclusive {
					m.excl[typ] = name
				} else {
					if m.shared[typ] == nil {
						m.shared[typ] = map[string]bool{}
					}

					m.shared[typ][name] = true
				}

				if rejected || deleted {
					rejectedThenAccepted = true
				}
			} else {
				rejected = true
			}
		case "delctrl":
			db.DeleteController(name)

			for typ, c := range m.excl {
				if c == name {
					delete(m.excl, typ)
				}
			}

			for typ := range m.shared {
				delete(m.shared[typ], name)
			}

			delete(m.ins, name)

			deleted = true
		case "addin":
			w := op.win()
			gotErr := db.AddControllerInput(name, op.input())
			wantErr := slices.ContainsFunc(m.ins[name], func(x wIn) bool { return sameKeys(x, w) })

			if (gotErr != nil) != wantErr {
				v.Failf("%s: AddControllerInput(%s, %+v) returned %v, the model expects rejection=%v (inputs %+v)", what, name, w, gotErr, wantErr, m.ins[name])

				return v
			}

			if gotErr == nil {
				m.ins[name] = append(m.ins[name], w)

				if rejected || deleted {
					rejectedThenAccepted = true
				}
			} else {
				rejected = true
			}
		case "delin":
			w := op.win()
			gotErr := db.DeleteControllerInput(name, op.input())
			idx := slices.IndexFunc(m.ins[name], func(x wIn) bool { return sameKeys(x, w) })

			if (gotErr != nil) != (idx < 0) {
				v.Failf("%s: DeleteControllerInput(%s, %+v) returned %v, the model has the input: %v (inputs %+v)", what, name, w, gotErr, idx >= 0, m.ins[name])

				return v
			}

			if gotErr == nil {
				m.ins[name] = slices.Delete(m.ins[name], idx, idx+1)
				deleted = true
			} else {
				rejected = true
			}
		}

		for _, h := range held {
			if !slices.Equal(h.got, h.was) {
				v.Failf("%s: the result of %s handed out before this call was %v and has now become %v: results alias the database tables", what, h.what, h.was, h.got)

				return v
			}
		}

		held = held[:0]

		// queries
		for _, typ := range wTyps {
			got, _ := db.GetResourceExclusiveController(typ)
			if got != m.excl[typ] {
				v.Failf("%s: exclusive controller of %s is %q, model %q", what, typ, got, m.excl[typ])

				return v
			}

			if m.excl[typ] != "" && len(m.shared[typ]) > 0 {
				v.Failf("harness: model holds exclusive and shared claims on %s", typ)

				return v
			}
		}

		var wantEdges []string

		for _, c := range wNames {
			outs, _ := db.GetControllerOutputs(c)

			var gotO, wantO []string

			for _, o := range outs {
				gotO = append(gotO, fmt.Sprintf("%d:%s", o.Kind, o.Type))
			}

			for _, typ := range wTyps {
				if m.excl[typ] == c {
					wantO = append(wantO, "0:"+typ)
					wantEdges = append(wantEdges, fmt.Sprintf("%s out-excl %s", c, typ))
				}
			}

			for _, typ := range wTyps {
				if m.shared[typ][c] {
					wantO = append(wantO, "1:"+typ)
					wantEdges = append(wantEdges, fmt.Sprintf("%s out-shared %s", c, typ))
				}
			}

			if strings.Join(gotO, ",") != strings.Join(wantO, ",") {
				v.Failf("%s: outputs of %s are %v, model %v", what, c, gotO, wantO)

				return v
			}

			ins, _ := db.GetControllerInputs(c)

			var gotI, wantI []string

			for _, in := range ins {
				gotI = append(gotI, fmt.Sprintf("%s/%s/%v/%s kind %d", in.Namespace, in.Type, in.ID.IsPresent(), in.ID.ValueOrZero(), in.Kind))
			}

			for _, in := range m.ins[c] {
				wantI = append(wantI, fmt.Sprintf("%s/%s/%v/%s kind %d", in.NS, in.Typ, in.ByID, in.ID, in.Kind))
				wantEdges = append(wantEdges, fmt.Sprintf("%s in-%d %s/%s/%s", c, in.Kind, in.NS, in.Typ, in.ID))
			}

			sort.Strings(wantI)

			if !sort.StringsAreSorted(gotI) {
				v.Label("inputs-order-differs-from-text-order")
			}

			sortedGot := slices.Clone(gotI)
			sort.Strings(sortedGot)

			if strings.Join(sortedGot, ";") != strings.Join(wantI, ";") {
				v.Failf("%s: inputs of %s are %v, model %v", what, c, gotI, wantI)

				return v
			}
		}

		for _, ns := range wNS {
			for _, typ := range wTyps {
				for _, id := range append([]string{"zz"}, wIDs...) {
					got, err := db.GetDependentControllers(controller.Input{Namespace: ns, Type: typ, ID: optional.Some(id)})
					if err != nil {
						v.Failf("%s: GetDependentControllers: %v", what, err)

						return v
					}

					held = append(held, heldResult{what: fmt.Sprintf("GetDependentControllers(%s/%s/%s)", ns, typ, id), got: got, was: slices.Clone(got)})

					want := map[string]bool{}

					for c, ins := range m.ins {
						for _, in := range ins {
							if in.NS == ns && in.Typ == typ && (!in.ByID || in.ID == id) {
								want[c] = true
							}
						}
					}

					gotSet := map[string]bool{}
					for _, g := range got {
						gotSet[g] = true
					}

					if strings.Join(keys(gotSet), ",") != strings.Join(keys(want), ",") {
						v.Failf("%s: a change of %s/%s/%s is routed to %v, the model says %v", what, ns, typ, id, got, keys(want))

						return v
					}

					if len(got) > 2*len(gotSet) {
						v.Failf("%s: a change of %s/%s/%s is routed to %v: a controller is listed more often than it has matching inputs", what, ns, typ, id, got)

						return v
					}
				}
			}
		}

		graph, err := db.Export()
		if err != nil {
			v.Failf("%s: Export: %v", what, err)

			return v
		}

		var gotEdges []string

		for _, e := range graph.Edges {
			switch e.EdgeType {
			case controller.EdgeOutputExclusive:
				gotEdges = append(gotEdges, fmt.Sprintf("%s out-excl %s", e.ControllerName, e.ResourceType))
			case controller.EdgeOutputShared:
				gotEdges = append(gotEdges, fmt.Sprintf("%s out-shared %s", e.ControllerName, e.ResourceType))
			default:
				kind := map[controller.DependencyEdgeType]controller.InputKind{
					controller.EdgeInputStrong: controller.InputStrong, controller.EdgeInputWeak: controller.InputWeak,
					controller.EdgeInputDestroyReady: controller.InputDestroyReady, controller.EdgeInputQPrimary: controller.InputQPrimary,
					controller.EdgeInputQMapped: controller.InputQMapped, controller.EdgeInputQMappedDestroyReady: controller.InputQMappedDestroyReady,
				}[e.EdgeType]

				gotEdges = append(gotEdges, fmt.Sprintf("%s in-%d %s/%s/%s", e.ControllerName, int(kind), e.ResourceNamespace, e.ResourceType, e.ResourceID))
			}
		}

		sort.Strings(gotEdges)
		sort.Strings(wantEdges)

		if strings.Join(gotEdges, ";") != strings.Join(wantEdges, ";") {
			v.Failf("%s: exported graph is %v, model %v", what, gotEdges, wantEdges)

			return v
		}
	}

	if rejectedThenAccepted {
		v.NonTrivial = true

		v.Label("accepted-after-rejection-or-removal")
	}

	v.Outcome = fmt.Sprintf("%d ops", len(p.Ops))

	return v
}

func keys(m map[string]bool) []string {
	out := make([]string, 0, len(m))
	for k, ok := range m {
		if ok {
			out = append(out, k)
		}
	}

	sort.Strings(out)

	return out
}

//go:build verif

package c17

import (
	"testing"

	"verifharness/hk"
)

func TestWhitebox(t *testing.T) {
	hk.RunSub(t, hk.Sub[WPlan]{Name: "s1/depdb", Quick: 3000, Thorough: 30000, Gen: GenW, Run: RunW, Journal: true})
}

// TestWhiteboxEnum enumerates every call sequence up to a length over a reduced alphabet.
func TestWhiteboxEnum(t *testing.T) {
	n := 3
	if hk.Tier() == "thorough" {
		if hk.Shard() != 0 {
			return
		}

		n = 4
	}

	var all []WPlan
	for l := 1; l <= n; l++ {
		all = append(all, EnumW(l)...)
	}

	hk.RunEnum(t, "s1/depdb-enum", all, RunW)
}

// Package c17 checks C17: output exclusivity and dependency graph are consistent for any registration history.
package c17

import (
	"fmt"
	"sort"
	"strconv"
	"strings"
	"testing"
	"testing/synctest"
	"time"

	"pgregory.net/rapid"

	"github.com/cosi-project/runtime/pkg/controller"
	"github.com/cosi-project/runtime/pkg/resource"
	"github.com/cosi-project/runtime/pkg/state"

	"verifharness/hk"
	"verifharness/hres"
	"verifharness/model"
	"verifharness/sim"
)

// Reg is a registration attempt.
type Reg struct {
	Flavor string        `json:"flavor"` // plain | queue
	Name   int           `json:"name"`
	Ins    []sim.InSpec  `json:"ins"`
	Outs   []sim.OutSpec `json:"outs"`
	Conc   int           `json:"conc"` // queue: -1 unset, 0 zero (invalid), >0
}

// Step is one step of the history.
type Step struct {
	K    string       `json:"k"` // reg | update | run
	Reg  Reg          `json:"reg"`
	Name int          `json:"name"` // update: which controller
	Ins  []sim.InSpec `json:"ins"`
}

// Plan is a C17 plan.
type Plan struct {
	Steps []Step `json:"steps"`
}

var (
	names = []string{"c0", "c1", "c2", "c3"}
	typs  = []string{"TA", "TB"}
	idsD  = []string{"a", "b"}
)

func genIns(t *rapid.T, label string) []sim.InSpec {
	return rapid.SliceOfN(rapid.Custom(func(t *rapid.T) sim.InSpec {
		in := sim.InSpec{NS: "n1", Typ: rapid.SampledFrom(typs).Draw(t, "ityp"), Kind: rapid.IntRange(0, 5).Draw(t, "ikind")}
		if rapid.IntRange(0, 1).Draw(t, "byid") == 0 {
			in.ID = rapid.SampledFrom(idsD).Draw(t, "iid")
		}

		return in
	}), 0, 3).Draw(t, label)
}

// Gen draws a plan.
func Gen(t *rapid.T) Plan {
	p := Plan{}
	n := rapid.IntRange(1, 12).Draw(t, "nsteps")
	runAt := rapid.IntRange(0, n).Draw(t, "runat")
	history := map[int][][]sim.InSpec{}

	for i := 0; i < n; i++ {
		if i == runAt {
			p.Steps = append(p.Steps, Step{K: "run"})
		}

		if i > runAt && rapid.IntRange(0, 3).Draw(t, "isupdate") == 0 {
			st := Step{K: "update", Name: rapid.IntRange(0, 3).Draw(t, "uname"), Ins: genIns(t, "uins")}

			// a third of the updates go back to an input set the controller has asked for before (its registration
			// or an earlier update), e.g. to the last accepted set right after a rejected update
			if h := history[st.Name]; len(h) > 0 && rapid.IntRange(0, 2).Draw(t, "revert") == 0 {
				st.Ins = append([]sim.InSpec{}, h[rapid.IntRange(0, len(h)-1).Draw(t, "revertto")]...)
			}

			history[st.Name] = append(history[st.Name], st.Ins)
			p.Steps = append(p.Steps, st)

			continue
		}

		r := Reg{
			Flavor: rapid.SampledFrom([]string{"plain", "queue"}).Draw(t, "flavor"),
			Name:   rapid.IntRange(0, 3).Draw(t, "name"),
			Conc:   rapid.SampledFrom([]int{-1, -1, 1, 2, 0}).Draw(t, "conc"),
		}

		// bias input kinds towards the legal ones for the flavour
		r.Ins = genIns(t, "ins")
		if rapid.IntRange(0, 3).Draw(t, "legalise") > 0 {
			for j := range r.Ins {
				if r.Flavor == "plain" {
					r.Ins[j].Kind %= 3
				} else {
					r.Ins[j].Kind = 3 + r.Ins[j].Kind%3
				}
			}
		}

		r.Outs = rapid.SliceOfN(rapid.Custom(func(t *rapid.T) sim.OutSpec {
			return sim.OutSpec{Typ: rapid.SampledFrom([]string{"TA", "TB", "TC"}).Draw(t, "otyp"), Kind: rapid.IntRange(0, 1).Draw(t, "okind")}
		}), 0, 2).Draw(t, "outs")

		history[r.Name] = append(history[r.Name], r.Ins)
		p.Steps = append(p.Steps, Step{K: "reg", Reg: r})
	}

	return p
}

// mctrl is the model of an accepted controller.
type mctrl struct {
	flavor string
	ins    []sim.InSpec
	outs   []sim.OutSpec
	// graphOnly: after a rejected UpdateInputs the model follows the exported graph for this controller
	fromGraph bool
}

type mdl struct {
	ctrls     map[string]*mctrl
	exclusive map[string]string
	shared    map[string]map[string]bool
}

func dupKeys(ins []sim.InSpec) bool {
	seen := map[string]bool{}
	for _, i := range ins {
		k := i.NS + "/" + i.Typ + "/" + i.ID
		if seen[k] {
			return true
		}

		seen[k] = true
	}

	return false
}

func (m *mdl) register(name string, r Reg) (bool, string) {
	if _, ok := m.ctrls[name]; ok {
		return false, "name already registered"
	}

	if r.Flavor == "queue" && r.Conc == 0 {
		return false, "zero concurrency"
	}

	excl := map[string]string{}
	shar := map[string]map[string]bool{}

	for _, o := range r.Outs {
		if h, ok := m.exclusive[o.Typ]; ok {
			return false, "type exclusively held by " + h
		}

		if _, ok := excl[o.Typ]; ok {
			return false, "type claimed twice (exclusive first)"
		}

		if o.Kind == controller.OutputExclusive {
			if len(m.shared[o.Typ]) > 0 || len(shar[o.Typ]) > 0 {
				return false, "exclusive claim on a shared type"
			}

			excl[o.Typ] = name
		} else {
			if shar[o.Typ][name] {
				return false, "duplicate shared output"
			}

			if shar[o.Typ] == nil {
				shar[o.Typ] = map[string]bool{}
			}

			shar[o.Typ][name] = true
		}
	}

	for _, i := range r.Ins {
		legal := i.Kind <= 2
		if r.Flavor == "queue" {
			legal = i.Kind >= 3
		}

		if !legal {
			return false, "input kind illegal for the flavour"
		}
	}

	if dupKeys(r.Ins) {
		return false, "conflicting inputs"
	}

	for t, n := range excl {
		m.exclusive[t] = n
	}

	for t, s := range shar {
		if m.shared[t] == nil {
			m.shared[t] = map[string]bool{}
		}

		for n := range s {
			m.shared[t][n] = true
		}
	}

	m.ctrls[name] = &mctrl{flavor: r.Flavor, ins: r.Ins, outs: r.Outs}

	return true, ""
}

func edgeOfIn(name string, i sim.InSpec) string {
	et := map[int]controller.DependencyEdgeType{
		controller.InputStrong: controller.EdgeInputStrong, controller.InputWeak: controller.EdgeInputWeak,
		controller.InputDestroyReady: controller.EdgeInputDestroyReady, controller.InputQPrimary: controller.EdgeInputQPrimary,
		controller.InputQMapped: controller.EdgeInputQMapped, controller.InputQMappedDestroyReady: controller.EdgeInputQMappedDestroyReady,
	}[i.Kind]

	return fmt.Sprintf("%s|%s|%s|%s|%d", name, i.NS, i.Typ, i.ID, et)
}

func (m *mdl) edges(skip map[string]bool) []string {
	var out []string

	for n, c := range m.ctrls {
		for _, o := range c.outs {
			et := controller.EdgeOutputExclusive
			if o.Kind == controller.OutputShared {
				et = controller.EdgeOutputShared
			}

			out = append(out, fmt.Sprintf("%s|||%s|%d", n, o.Typ, et))
		}

		if skip[n] {
			continue
		}

		for _, i := range c.ins {
			out = append(out, edgeOfIn(n, i))
		}
	}

	sort.Strings(out)

	return out
}

// Run executes the plan in a bubble.
func Run(p Plan) (v hk.Verdict) {
	synctest.Test(hk.T(), func(*testing.T) { v = runBubble(p) })

	return v
}

type probe struct {
	plain *sim.PlainProbe
	queue *sim.QProbe
}

func (pr probe) count() int {
	if pr.plain != nil {
		o, _ := pr.plain.Snapshot()

		return len(o)
	}

	return len(pr.queue.Snapshot())
}

//nolint:gocyclo,gocognit,cyclop,maintidx
func runBubble(p Plan) (v hk.Verdict) {
	w, err := sim.NewWorld(sim.WorldOptions{})
	if err != nil {
		v.Failf("harness: %v", err)

		return v
	}

	defer func() {
		if done, _ := w.Stop(); !done && v.Fail == "" {
			v.Failf("runtime Run did not return after cancellation")
		}
	}()

	m := &mdl{ctrls: map[string]*mctrl{}, exclusive: map[string]string{}, shared: map[string]map[string]bool{}}
	probes := map[string]probe{}
	started := false
	rejectedBefore := map[string]bool{} // types/inputs touched by a rejected registration
	graphFollow := map[string]bool{}

	exportGraph := func() ([]string, map[string][]sim.InSpec) {
		g, err := w.RT.GetDependencyGraph()
		if err != nil {
			return []string{"error: " + err.Error()}, nil
		}

		var (
			out  []string
			insG = map[string][]sim.InSpec{}
		)

		for _, e := range g.Edges {
			if e.EdgeType == controller.EdgeOutputExclusive || e.EdgeType == controller.EdgeOutputShared {
				out = append(out, fmt.Sprintf("%s|||%s|%d", e.ControllerName, e.ResourceType, e.EdgeType))

				continue
			}

			out = append(out, fmt.Sprintf("%s|%s|%s|%s|%d", e.ControllerName, e.ResourceNamespace, e.ResourceType, e.ResourceID, e.EdgeType))

			kind := map[controller.DependencyEdgeType]int{
				controller.EdgeInputStrong: controller.InputStrong, controller.EdgeInputWeak: controller.InputWeak,
				controller.EdgeInputDestroyReady: controller.InputDestroyReady, controller.EdgeInputQPrimary: controller.InputQPrimary,
				controller.EdgeInputQMapped: controller.InputQMapped, controller.EdgeInputQMappedDestroyReady: controller.InputQMappedDestroyReady,
			}[e.EdgeType]
			insG[e.ControllerName] = append(insG[e.ControllerName], sim.InSpec{NS: e.ResourceNamespace, Typ: e.ResourceType, ID: e.ResourceID, Kind: kind})
		}

		sort.Strings(out)

		return out, insG
	}

	checkGraph := func(after string) bool {
		got, insG := exportGraph()

		// controllers whose last UpdateInputs was rejected follow the exported graph
		for n := range graphFollow {
			if c := m.ctrls[n]; c != nil {
				c.ins = insG[n]
			}
		}

		want := m.edges(nil)
		if strings.Join(got, "\n") != strings.Join(want, "\n") {
			v.Failf("after %s: exported dependency graph differs from the accepted registrations:\n got  %v\n want %v", after, got, want)

			return false
		}

		// exclusivity invariants on the exported graph itself
		ex := map[string]int{}
		sh := map[string]int{}

		for _, e := range got {
			f := strings.Split(e, "|")
			if len(f) == 5 && f[1] == "" && f[2] == "" {
				if f[4] == strconv.Itoa(int(controller.EdgeOutputExclusive)) {
					ex[f[3]]++
				} else {
					sh[f[3]]++
				}
			}
		}

		for t, n := range ex {
			if n > 1 || sh[t] > 0 {
				v.Failf("after %s: type %s has %d exclusive and %d shared holders", after, t, n, sh[t])

				return false
			}
		}

		return true
	}

	quiesce := func() {
		synctest.Wait()
		time.Sleep(2 * time.Second)
		synctest.Wait()
	}

	for si, st := range p.Steps {
		desc := fmt.Sprintf("step %d %s", si, st.K)

		switch st.K {
		case "run":
			w.Run()
			synctest.Wait()

			started = true
		case "reg":
			name := names[st.Reg.Name]
			desc = fmt.Sprintf("step %d register %s %s ins=%+v outs=%+v conc=%d", si, st.Reg.Flavor, name, st.Reg.Ins, st.Reg.Outs, st.Reg.Conc)

			var (
				pr   probe
				rerr error
			)

			if st.Reg.Flavor == "plain" {
				pr.plain = &sim.PlainProbe{W: w, NameStr: name, Ins: st.Reg.Ins, Outs: st.Reg.Outs}
				rerr = w.RT.RegisterController(pr.plain)
			} else {
				pr.queue = &sim.QProbe{W: w, NameStr: name, Ins: st.Reg.Ins, Outs: st.Reg.Outs, Mapper: map[string][]string{}}

				switch {
				case st.Reg.Conc > 0:
					pr.queue.Conc = uint(st.Reg.Conc)
				case st.Reg.Conc == 0:
					pr.queue.ZeroConc = true
				}

				rerr = w.RT.RegisterQController(pr.queue)
			}

			want, why := m.register(name, st.Reg)
			if want != (rerr == nil) {
				v.Failf("%s: model says accepted=%v (%s), runtime returned %v", desc, want, why, rerr)

				return v
			}

			if rerr == nil {
				probes[name] = pr

				if len(rejectedBefore) > 0 {
					for _, o := range st.Reg.Outs {
						if rejectedBefore["out:"+o.Typ] {
							v.NonTrivial = true

							v.Label("accepted-after-rejected-sharing-a-type")
						}
					}

					for _, i := range st.Reg.Ins {
						if rejectedBefore["in:"+i.Typ] {
							v.NonTrivial = true

							v.Label("accepted-after-rejected-sharing-an-input")
						}
					}
				}
			} else {
				v.Label("rejected:" + why)

				for _, o := range st.Reg.Outs {
					rejectedBefore["out:"+o.Typ] = true
				}

				for _, i := range st.Reg.Ins {
					rejectedBefore["in:"+i.Typ] = true
				}
			}
		case "update":
			name := names[st.Name]
			c := m.ctrls[name]

			if c == nil || c.flavor != "plain" || !started {
				continue
			}

			desc = fmt.Sprintf("step %d UpdateInputs %s %+v", si, name, st.Ins)

			quiesce()

			rt := probes[name].plain.Runtime()
			if rt == nil {
				continue
			}

			cins := make([]controller.Input, 0, len(st.Ins))
			for _, i := range st.Ins {
				cins = append(cins, i.ToInput())
			}

			uerr := rt.UpdateInputs(cins)

			legal := !dupKeys(st.Ins)
			for _, i := range st.Ins {
				if i.Kind > 2 {
					legal = false
				}
			}

			if legal != (uerr == nil) {
				v.Failf("%s: model says accepted=%v, runtime returned %v", desc, legal, uerr)

				return v
			}

			if uerr == nil {
				c.ins = st.Ins
				delete(graphFollow, name)
				probes[name].plain.SetInputs(st.Ins)
			} else {
				graphFollow[name] = true

				v.Label("rejected-update-inputs")
			}
		}

		if !checkGraph(desc) {
			return v
		}
	}

	if !started {
		w.Run()
		synctest.Wait()
	}

	quiesce()

	// wake-up routing: one key at a time
	ext := state.WrapCore(w.Ext)

	for _, typ := range []string{"TA", "TB", "TC"} {
		for _, id := range idsD {
			before := map[string]int{}
			for n, pr := range probes {
				before[n] = pr.count()
			}

			if err := ext.Create(w.Ctx, hres.New("n1", typ, id, "x")); err != nil {
				v.Failf("harness: create: %v", err)

				return v
			}

			quiesce()

			if done, rerr := w.RunResult(); done {
				v.Failf("runtime Run returned while delivering the change of n1/%s/%s: %v", typ, id, rerr)

				return v
			}

			k := model.Key{NS: "n1", Typ: typ, ID: id}

			for n, pr := range probes {
				woken := pr.count() > before[n]
				must, may := false, false

				for _, in := range m.ctrls[n].ins {
					if in.NS == k.NS && in.Typ == k.Typ && (in.ID == "" || in.ID == k.ID) {
						if in.Kind == controller.InputDestroyReady || in.Kind == controller.InputQMappedDestroyReady {
							may = true
						} else {
							must = true
						}
					}
				}

				if must && !woken {
					v.Failf("controller %s has an input matching %s but was not notified of its creation (inputs %+v)", n, k, m.ctrls[n].ins)

					return v
				}

				if woken && !must && !may {
					v.Failf("controller %s was notified of the creation of %s although none of its inputs matches (inputs %+v)", n, k, m.ctrls[n].ins)

					return v
				}
			}
		}
	}

	v.Outcome = fmt.Sprintf("%d accepted controllers", len(m.ctrls))

	return v
}

var _ = resource.VersionUndefined

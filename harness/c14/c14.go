// Package c14 checks C14: selector-filtered lists/watches are exact views; one selector semantics everywhere.
package c14

import (
	"context"
	"fmt"
	"math"
	"regexp"
	"sort"
	"strconv"
	"strings"
	"sync"
	"testing"
	"testing/synctest"

	"pgregory.net/rapid"

	"github.com/cosi-project/runtime/pkg/resource"
	"github.com/cosi-project/runtime/pkg/resource/kvutils"
	"github.com/cosi-project/runtime/pkg/state"
	"github.com/cosi-project/runtime/pkg/state/protobuf/server"

	"verifharness/hk"
	"verifharness/hres"
	"verifharness/model"
	"verifharness/sim"
)

// Term is a plain-data label term.
type Term struct {
	Key    int      `json:"key"` // index into keys (last one is never set on resources)
	Op     int      `json:"op"`
	Values []string `json:"values"`
	Invert bool     `json:"invert"`
}

// Query is AND of terms.
type Query struct {
	Terms []Term `json:"terms"`
}

// Sel is a selector: OR of queries plus an optional id regexp.
type Sel struct {
	Queries []Query `json:"queries"`
	IDRe    string  `json:"idre"`
}

// LOp is a step of the label history.
type LOp struct {
	K   string `json:"k"` // create destroy set del
	ID  int    `json:"id"`
	Key int    `json:"key"`
	Val string `json:"val"`
}

// Plan is a C14 plan.
type Plan struct {
	Init    []map[string]string `json:"init"` // labels of the initial resources r0..rN
	Sels    []Sel               `json:"sels"`
	History []LOp               `json:"history"`
}

var (
	keys   = []string{"k1", "k2", "k3", "kx"}
	rids   = []string{"a", "b", "c", "ac", "cab"} // (literal ID expressions match as substrings)
	values = []string{"", "x", "y", "abc", "0", "5", "10", "-3", "007", "5k", "1Ki", "1ki", "1k", "1K", "1000", "1023", "1024", "1025", "2 M", "2Mi", "2097152", "2000000", " 3g ", "3Gi", "1KI",
		"1P", "1Pi", "1T", "1 Ti", "5kilo", "1e3", "k", "-", "9223372036854775807", "9999999999G"}
	// values around the unit boundaries (binary vs. decimal suffixes): comparisons between them decide the suffix table
	boundary = []string{"1Ki", "1ki", "1k", "1K", "1000", "1023", "1024", "1025", "2Mi", "2 M", "2097152", "2000000", "3Gi", " 3g ", "1Ti", "1T"}
	idRes    = []string{"", "", "^[ab]$", "c", "^$", "[b-c]", "^a", "a", "ab", "^c$"}
)

func genTerm(t *rapid.T) Term {
	tm := Term{
		Key:    rapid.SampledFrom([]int{0, 0, 1, 1, 2, 3}).Draw(t, "tkey"),
		Op:     rapid.SampledFrom([]int{0, 1, 2, 3, 4, 5, 5, 5, 6, 6, 6}).Draw(t, "top"),
		Invert: rapid.IntRange(0, 2).Draw(t, "tinv") == 0,
	}

	n := rapid.SampledFrom([]int{1, 1, 1, 1, 0, 2, 3}).Draw(t, "nvals")
	if resource.LabelOp(tm.Op) == resource.LabelOpExists {
		n = 0
	}

	for i := 0; i < n; i++ {
		tm.Values = append(tm.Values, rapid.SampledFrom(values).Draw(t, "tval"))
	}

	// one term in six is a numeric comparison against a unit-boundary value
	if rapid.IntRange(0, 5).Draw(t, "boundary-term") == 0 {
		tm.Op = rapid.SampledFrom([]int{5, 6}).Draw(t, "btop")
		tm.Values = []string{rapid.SampledFrom(boundary).Draw(t, "btval")}
	}

	return tm
}

func genLabelValue(t *rapid.T, label string) string {
	if rapid.IntRange(0, 4).Draw(t, label+"-boundary") == 0 {
		return rapid.SampledFrom(boundary).Draw(t, label+"-b")
	}

	return rapid.SampledFrom(values).Draw(t, label)
}

func genSel(t *rapid.T) Sel {
	s := Sel{IDRe: rapid.SampledFrom(idRes).Draw(t, "idre")}

	nq := rapid.SampledFrom([]int{0, 1, 1, 1, 2, 3}).Draw(t, "nq")
	for i := 0; i < nq; i++ {
		q := Query{}

		nt := rapid.SampledFrom([]int{0, 1, 1, 1, 2, 3}).Draw(t, "nt")
		for j := 0; j < nt; j++ {
			q.Terms = append(q.Terms, genTerm(t))
		}

		s.Queries = append(s.Queries, q)
	}

	return s
}

// Gen draws a plan.
func Gen(t *rapid.T) Plan {
	p := Plan{}

	n := rapid.IntRange(1, 5).Draw(t, "nres")
	for i := 0; i < n; i++ {
		l := map[string]string{}

		for k := 0; k < 3; k++ {
			if rapid.IntRange(0, 2).Draw(t, "haslabel") > 0 {
				l[keys[k]] = genLabelValue(t, "lval")
			}
		}

		p.Init = append(p.Init, l)
	}

	p.Sels = rapid.SliceOfN(rapid.Custom(genSel), 1, 4).Draw(t, "sels")

	p.History = rapid.SliceOfN(rapid.Custom(func(t *rapid.T) LOp {
		return LOp{
			K:   rapid.SampledFrom([]string{"set", "set", "set", "setdo", "setdo", "del", "del", "create", "destroy"}).Draw(t, "hk"),
			ID:  rapid.IntRange(0, 4).Draw(t, "hid"),
			Key: rapid.IntRange(0, 2).Draw(t, "hkey"),
			Val: genLabelValue(t, "hval"),
		}
	}), 0, 20).Draw(t, "history")

	return p
}

func (tm Term) toTerm() resource.LabelTerm {
	return resource.LabelTerm{Key: keys[tm.Key], Op: resource.LabelOp(tm.Op), Value: tm.Values, Invert: tm.Invert}
}

func (s Sel) listOpts() []state.ListOption {
	var o []state.ListOption

	for _, q := range s.Queries {
		var lq resource.LabelQuery
		for _, tm := range q.Terms {
			lq.Terms = append(lq.Terms, tm.toTerm())
		}

		o = append(o, state.WithLabelQuery(resource.RawLabelQuery(lq)))
	}

	if s.IDRe != "" {
		o = append(o, state.WithIDQuery(resource.IDRegexpMatch(regexp.MustCompile(s.IDRe))))
	}

	return o
}

func (s Sel) watchOpts() []state.WatchKindOption {
	var o []state.WatchKindOption

	for _, q := range s.Queries {
		var lq resource.LabelQuery
		for _, tm := range q.Terms {
			lq.Terms = append(lq.Terms, tm.toTerm())
		}

		o = append(o, state.WatchWithLabelQuery(resource.RawLabelQuery(lq)))
	}

	if s.IDRe != "" {
		o = append(o, state.WatchWithIDQuery(resource.IDRegexpMatch(regexp.MustCompile(s.IDRe))))
	}

	return o
}

// ---- brute-force evaluator written from the documentation ----

var unitMul = map[string]float64{
	"": 1, "k": 1e3, "m": 1e6, "g": 1e9, "t": 1e12, "p": 1e15,
	"ki": 1 << 10, "mi": 1 << 20, "gi": 1 << 30, "ti": 1 << 40, "pi": 1 << 50,
}

var wellFormedNum = regexp.MustCompile(`^\s*(-?[0-9]+)\s*([A-Za-z]{0,2})\s*$`)

// parseNum returns (value, wellFormed). Malformed-but-possibly-accepted operands return wellFormed=false so that
// the brute-force oracle is not consulted for them.
func parseNum(s string) (int64, bool, bool) {
	m := wellFormedNum.FindStringSubmatch(s)
	if m == nil {
		return 0, false, false // not numeric in the documented sense; may still be accepted or rejected by the code
	}

	mul, ok := unitMul[strings.ToLower(m[2])]
	if !ok {
		return 0, false, false
	}

	n, err := strconv.ParseInt(m[1], 10, 64)
	if err != nil {
		return 0, false, false
	}

	f := float64(n) * mul
	if math.Abs(f) >= float64(math.MaxInt64)/2 {
		return 0, false, false // overflow region: cross-site agreement only
	}

	return n * int64(mul), true, true
}

// plainlyNonNumeric tells whether the code cannot possibly treat s as a number (no leading digits at all).
func plainlyNonNumeric(s string) bool {
	t := strings.TrimSpace(s)
	if t == "" {
		return true
	}

	c := t[0]

	return !(c >= '0' && c <= '9') && c != '-'
}

// bruteTerm returns (matches, oracleApplies).
func bruteTerm(tm Term, labels map[string]string) (bool, bool) {
	v, present := labels[keys[tm.Key]]
	op := resource.LabelOp(tm.Op)

	var r bool

	switch op {
	case resource.LabelOpExists:
		r = present
	case resource.LabelOpEqual:
		if len(tm.Values) > 1 {
			return false, false // the constructors cannot express it; cross-site agreement only
		}

		r = present && len(tm.Values) == 1 && v == tm.Values[0]
	case resource.LabelOpIn:
		r = present && contains(tm.Values, v)
	case resource.LabelOpLT, resource.LabelOpLTE:
		if len(tm.Values) > 1 {
			return false, false
		}

		if !present {
			return false, true // undecidable: never matches, inverted or not
		}

		if len(tm.Values) == 0 {
			r = false
		} else if op == resource.LabelOpLT {
			r = v < tm.Values[0]
		} else {
			r = v <= tm.Values[0]
		}
	case resource.LabelOpLTNumeric, resource.LabelOpLTENumeric:
		if len(tm.Values) > 1 {
			return false, false
		}

		if !present {
			return false, true
		}

		if len(tm.Values) == 0 {
			r = false

			break
		}

		a, aNum, aOK := parseNum(v)
		b, bNum, bOK := parseNum(tm.Values[0])

		switch {
		case aOK && bOK:
			if op == resource.LabelOpLTNumeric {
				r = a < b
			} else {
				r = a <= b
			}
		case (!aNum && plainlyNonNumeric(v)) || (!bNum && plainlyNonNumeric(tm.Values[0])):
			return false, true // a non-numeric operand: undecidable, never matches
		default:
			return false, false // malformed-but-maybe-accepted or overflowing operand
		}
	}

	if tm.Invert {
		r = !r
	}

	return r, true
}

func contains(s []string, v string) bool {
	for _, x := range s {
		if x == v {
			return true
		}
	}

	return false
}

// bruteSel returns (matches, oracleApplies).
func bruteSel(s Sel, id string, labels map[string]string) (bool, bool) {
	if s.IDRe != "" && !regexp.MustCompile(s.IDRe).MatchString(id) {
		return false, true
	}

	if len(s.Queries) == 0 {
		return true, true
	}

	applies := true
	any := false

	for _, q := range s.Queries {
		all := true

		for _, tm := range q.Terms {
			m, ok := bruteTerm(tm, labels)
			if !ok {
				applies = false
			}

			if !m {
				all = false
			}
		}

		if all {
			any = true
		}
	}

	return any, applies
}

// ---- execution ----

// Run executes the plan in a bubble.
func Run(p Plan) (v hk.Verdict) {
	synctest.Test(hk.T(), func(*testing.T) { v = runBubble(p) })

	return v
}

func idsOf(l resource.List) []string {
	var out []string
	for _, it := range l.Items {
		out = append(out, it.Metadata().ID()+"@"+it.Metadata().Version().String())
	}

	sort.Strings(out)

	return out
}

type watchRec struct {
	mu     sync.Mutex
	events []state.Event
}

func (w *watchRec) snapshot() []state.Event {
	w.mu.Lock()
	defer w.mu.Unlock()

	return append([]state.Event(nil), w.events...)
}

func openWatch(ctx context.Context, st state.CoreState, opts []state.WatchKindOption) (*watchRec, error) {
	ch := make(chan state.Event)
	rec := &watchRec{}

	if err := st.WatchKind(ctx, resource.NewMetadata("n1", "TA", "", resource.VersionUndefined), ch, append([]state.WatchKindOption{state.WithBootstrapContents(true)}, opts...)...); err != nil {
		return nil, err
	}

	go func() {
		for {
			select {
			case <-ctx.Done():
				return
			case e := <-ch:
				rec.mu.Lock()
				rec.events = append(rec.events, e)
				rec.mu.Unlock()
			}
		}
	}()

	return rec, nil
}

// replay folds events into a set id -> version; it reports protocol errors.
func replay(evs []state.Event) (map[string]string, []string, string) {
	m := map[string]string{}

	var boot []string

	booted := false

	for i, e := range evs {
		// every change delivered after the bootstrap carries the bookmark a consumer resumes from - also the changes a
		// filtered watch rewrites (an update into or out of the selection arrives as Created / Destroyed)
		if booted && (e.Type == state.Created || e.Type == state.Updated || e.Type == state.Destroyed) && len(e.Bookmark) == 0 {
			return nil, nil, fmt.Sprintf("event %d (%s of %s) was delivered after the bootstrap without a bookmark", i, e.Type, e.Resource.Metadata().ID())
		}

		switch e.Type {
		case state.Bootstrapped:
			booted = true

			for id, ver := range m {
				boot = append(boot, id+"@"+ver)
			}

			sort.Strings(boot)
		case state.Created:
			if _, ok := m[e.Resource.Metadata().ID()]; ok && booted {
				return nil, nil, fmt.Sprintf("event %d: Created for %s which is already in the view", i, e.Resource.Metadata().ID())
			}

			m[e.Resource.Metadata().ID()] = e.Resource.Metadata().Version().String()
		case state.Updated:
			if _, ok := m[e.Resource.Metadata().ID()]; !ok {
				return nil, nil, fmt.Sprintf("event %d: Updated for %s which is not in the view", i, e.Resource.Metadata().ID())
			}

			m[e.Resource.Metadata().ID()] = e.Resource.Metadata().Version().String()
		case state.Destroyed:
			if _, ok := m[e.Resource.Metadata().ID()]; !ok {
				return nil, nil, fmt.Sprintf("event %d: Destroyed for %s which is not in the view", i, e.Resource.Metadata().ID())
			}

			delete(m, e.Resource.Metadata().ID())
		case state.Errored:
			return nil, nil, fmt.Sprintf("event %d: Errored %v", i, e.Error)
		case state.Noop:
		}
	}

	if !booted {
		return nil, nil, "no Bootstrapped event"
	}

	return m, boot, ""
}

func viewIDs(m map[string]string) []string {
	var out []string
	for id, ver := range m {
		out = append(out, id+"@"+ver)
	}

	sort.Strings(out)

	return out
}

//nolint:gocyclo,gocognit,cyclop,maintidx
func runBubble(p Plan) (v hk.Verdict) {
	w, err := sim.NewWorld(sim.WorldOptions{Cached: []model.Key{{NS: "n1", Typ: "TA"}}})
	if err != nil {
		v.Failf("harness: %v", err)

		return v
	}

	pair, err := sim.NewGRPCPair(server.NewState(w.Inner), nil)
	if err != nil {
		v.Failf("harness: %v", err)

		return v
	}

	defer func() {
		pair.Close()

		if done, _ := w.Stop(); !done && v.Fail == "" {
			v.Failf("runtime did not stop")
		}
	}()

	ctx := w.Ctx
	kind := resource.NewMetadata("n1", "TA", "", resource.VersionUndefined)
	labelsNow := map[string]map[string]string{}

	for i, l := range p.Init {
		r := hres.New("n1", "TA", rids[i], "v")
		for k, val := range l {
			r.Metadata().Labels().Set(k, val)
		}

		if err := w.Inner.Create(ctx, r); err != nil {
			v.Failf("harness: %v", err)

			return v
		}

		labelsNow[rids[i]] = l
	}

	w.Run()
	w.Quiesce(3)

	cached := w.RT.CachedState()

	checkSites := func(when string) bool {
		for si, s := range p.Sels {
			direct, err := w.Inner.List(ctx, kind, s.listOpts()...)
			if err != nil {
				v.Failf("%s: direct List with selector %d failed: %v", when, si, err)

				return false
			}

			// (a) brute force
			all, _ := w.Inner.List(ctx, kind)

			var (
				brute   []string
				applies = true
			)

			for _, it := range all.Items {
				m, ok := bruteSel(s, it.Metadata().ID(), labelsNow[it.Metadata().ID()])
				if !ok {
					applies = false
				}

				if m {
					brute = append(brute, it.Metadata().ID()+"@"+it.Metadata().Version().String())
				}
			}

			sort.Strings(brute)

			if applies {
				if strings.Join(brute, ",") != strings.Join(idsOf(direct), ",") {
					v.Failf("%s: (a) List with selector %+v returned %v, the documented semantics give %v (labels %v)", when, s, idsOf(direct), brute, labelsNow)

					return false
				}

				v.Label("brute-force-applied")
			}

			if len(direct.Items) > 0 && len(direct.Items) < len(all.Items) {
				v.NonTrivial = true

				v.Label("selector-distinguishes")
			}

			// (b) the other sites
			want := strings.Join(idsOf(direct), ",")

			cl, err := cached.List(ctx, kind, s.listOpts()...)
			if err != nil {
				v.Failf("%s: cached List failed: %v", when, err)

				return false
			}

			if got := strings.Join(idsOf(cl), ","); got != want {
				v.Failf("%s: (b) cached List with selector %+v returned [%s], direct List [%s]", when, s, got, want)

				return false
			}

			rl, err := pair.Adapter.List(ctx, kind, s.listOpts()...)
			if err != nil {
				v.Failf("%s: (b) remote List with selector %+v failed: %v (direct List returned [%s])", when, s, err, want)

				return false
			}

			if got := strings.Join(idsOf(rl), ","); got != want {
				v.Failf("%s: (b) remote List with selector %+v returned [%s], direct List [%s]", when, s, got, want)

				return false
			}

			wctx, wcancel := context.WithCancel(ctx)

			rec, err := openWatch(wctx, w.Inner, s.watchOpts())
			if err != nil {
				wcancel()
				v.Failf("%s: filtered watch failed: %v", when, err)

				return false
			}

			synctest.Wait()

			_, boot, perr := replay(rec.snapshot())

			wcancel()
			synctest.Wait()

			if perr != "" {
				v.Failf("%s: (b) filtered watch bootstrap: %s", when, perr)

				return false
			}

			if got := strings.Join(boot, ","); got != want {
				v.Failf("%s: (b) bootstrap of a filtered watch with selector %+v is [%s], direct List [%s]", when, s, got, want)

				return false
			}
		}

		return true
	}

	if !checkSites("initially") {
		return v
	}

	// (d) algebra on the first selector
	if !algebra(ctx, w.Inner, p, labelsNow, &v) {
		return v
	}

	// (c) filtered watches through the history
	type live struct {
		direct, remote *watchRec
	}

	lives := make([]live, len(p.Sels))

	for si, s := range p.Sels {
		d, err := openWatch(ctx, w.Inner, s.watchOpts())
		if err != nil {
			v.Failf("filtered watch: %v", err)

			return v
		}

		r, err := openWatch(ctx, pair.Adapter, s.watchOpts())
		if err != nil {
			v.Failf("(c) remote filtered watch with selector %+v failed: %v", s, err)

			return v
		}

		lives[si] = live{d, r}
	}

	crossed := false

	for hi, op := range p.History {
		id := rids[op.ID]
		ptr := resource.NewMetadata("n1", "TA", id, resource.VersionUndefined)
		st := state.WrapCore(w.Inner)

		before := map[int]bool{}

		for si, s := range p.Sels {
			l, _ := w.Inner.List(ctx, kind, s.listOpts()...)
			for _, it := range l.Items {
				if it.Metadata().ID() == id {
					before[si] = true
				}
			}
		}

		switch op.K {
		case "create":
			if st.Create(ctx, hres.New("n1", "TA", id, "v")) == nil {
				labelsNow[id] = map[string]string{}
			}
		case "destroy":
			if st.Destroy(ctx, ptr) == nil {
				delete(labelsNow, id)
			}
		case "set", "setdo":
			if _, err := st.UpdateWithConflicts(ctx, ptr, func(r resource.Resource) error {
				if op.K == "setdo" {
					// the batch-edit form of the public labels API
					r.Metadata().Labels().Do(func(tmp kvutils.TempKV) { tmp.Set(keys[op.Key], op.Val) })
				} else {
					r.Metadata().Labels().Set(keys[op.Key], op.Val)
				}

				return nil
			}); err == nil {
				if labelsNow[id] == nil {
					labelsNow[id] = map[string]string{}
				}

				nl := map[string]string{}
				for k, val := range labelsNow[id] {
					nl[k] = val
				}

				nl[keys[op.Key]] = op.Val
				labelsNow[id] = nl
			}
		case "del":
			if _, err := st.UpdateWithConflicts(ctx, ptr, func(r resource.Resource) error {
				r.Metadata().Labels().Delete(keys[op.Key])

				return nil
			}); err == nil && labelsNow[id] != nil {
				nl := map[string]string{}
				for k, val := range labelsNow[id] {
					if k != keys[op.Key] {
						nl[k] = val
					}
				}

				labelsNow[id] = nl
			}
		}

		synctest.Wait()

		for si, s := range p.Sels {
			l, err := w.Inner.List(ctx, kind, s.listOpts()...)
			if err != nil {
				v.Failf("List: %v", err)

				return v
			}

			want := strings.Join(idsOf(l), ",")
			after := false

			for _, it := range l.Items {
				if it.Metadata().ID() == id {
					after = true
				}
			}

			if before[si] != after {
				crossed = true
			}

			for name, rec := range map[string]*watchRec{"direct": lives[si].direct, "remote": lives[si].remote} {
				view, _, perr := replay(rec.snapshot())
				if perr != "" {
					v.Failf("(c) %s filtered watch (selector %+v) after history step %d %+v: %s", name, s, hi, op, perr)

					return v
				}

				if got := strings.Join(viewIDs(view), ","); got != want {
					v.Failf("(c) %s filtered watch (selector %+v) after history step %d %+v replays to [%s], the filtered List is [%s]", name, s, hi, op, got, want)

					return v
				}
			}
		}
	}

	if crossed {
		v.NonTrivial = true

		v.Label("crossed-selector-boundary")
	}

	w.Quiesce(3)

	if !checkSites("after the history") {
		return v
	}

	v.Outcome = fmt.Sprintf("%d selectors, %d history steps", len(p.Sels), len(p.History))

	return v
}

func listIDs(ctx context.Context, st state.CoreState, s Sel) (map[string]bool, error) {
	l, err := st.List(ctx, resource.NewMetadata("n1", "TA", "", resource.VersionUndefined), s.listOpts()...)
	if err != nil {
		return nil, err
	}

	m := map[string]bool{}
	for _, it := range l.Items {
		m[it.Metadata().ID()] = true
	}

	return m, nil
}

// algebra checks metamorphic relations of the selector semantics through List.
func algebra(ctx context.Context, st state.CoreState, p Plan, labels map[string]map[string]string, v *hk.Verdict) bool {
	for _, s := range p.Sels {
		base, err := listIDs(ctx, st, s)
		if err != nil {
			v.Failf("List: %v", err)

			return false
		}

		// term order and query order are irrelevant
		rev := Sel{IDRe: s.IDRe}

		for i := len(s.Queries) - 1; i >= 0; i-- {
			q := Query{}
			for j := len(s.Queries[i].Terms) - 1; j >= 0; j-- {
				q.Terms = append(q.Terms, s.Queries[i].Terms[j])
			}

			rev.Queries = append(rev.Queries, q)
		}

		if got, _ := listIDs(ctx, st, rev); !sameSet(got, base) {
			v.Failf("(d) reversing term and query order changes the result of %+v: %v vs %v", s, keysOf(base), keysOf(got))

			return false
		}

		// adding a query never shrinks
		if len(s.Queries) > 0 {
			more := Sel{IDRe: s.IDRe, Queries: append(append([]Query(nil), s.Queries...), Query{Terms: []Term{{Key: 0, Op: int(resource.LabelOpExists)}}})}

			got, _ := listIDs(ctx, st, more)
			for id := range base {
				if !got[id] {
					v.Failf("(d) adding a query to %+v removed %s from the result", s, id)

					return false
				}
			}

			// adding a term to every query never grows
			less := Sel{IDRe: s.IDRe}

			for _, q := range s.Queries {
				less.Queries = append(less.Queries, Query{Terms: append(append([]Term(nil), q.Terms...), Term{Key: 1, Op: int(resource.LabelOpExists), Invert: true})})
			}

			got, _ = listIDs(ctx, st, less)
			for id := range got {
				if !base[id] {
					v.Failf("(d) adding a term to %+v added %s to the result", s, id)

					return false
				}
			}
		}

		// inversion of a single term
		for _, q := range s.Queries {
			for _, tm := range q.Terms {
				pos := Sel{Queries: []Query{{Terms: []Term{{Key: tm.Key, Op: tm.Op, Values: tm.Values}}}}}
				neg := Sel{Queries: []Query{{Terms: []Term{{Key: tm.Key, Op: tm.Op, Values: tm.Values, Invert: true}}}}}

				a, _ := listIDs(ctx, st, pos)
				b, _ := listIDs(ctx, st, neg)

				for id, l := range labels {
					_, applies := bruteTerm(Term{Key: tm.Key, Op: tm.Op, Values: tm.Values}, l)
					if !applies {
						continue
					}

					op := resource.LabelOp(tm.Op)
					_, present := l[keys[tm.Key]]
					decidable := true

					if op == resource.LabelOpLT || op == resource.LabelOpLTE || op == resource.LabelOpLTNumeric || op == resource.LabelOpLTENumeric {
						decidable = present
					}

					if (op == resource.LabelOpLTNumeric || op == resource.LabelOpLTENumeric) && present && len(tm.Values) > 0 {
						_, _, aOK := parseNum(l[keys[tm.Key]])
						_, _, bOK := parseNum(tm.Values[0])
						decidable = aOK && bOK
					}

					switch {
					case decidable && a[id] == b[id]:
						v.Failf("(d) term %+v is decidable for %s (labels %v) but the term and its inversion give the same answer %v", tm, id, l, a[id])

						return false
					case !decidable && (a[id] || b[id]):
						v.Failf("(d) term %+v is undecidable for %s (labels %v) but matched (plain %v, inverted %v)", tm, id, l, a[id], b[id])

						return false
					}
				}
			}
		}
	}

	return true
}

func sameSet(a, b map[string]bool) bool {
	if len(a) != len(b) {
		return false
	}

	for k := range a {
		if !b[k] {
			return false
		}
	}

	return true
}

func keysOf(m map[string]bool) []string {
	var out []string
	for k := range m {
		out = append(out, k)
	}

	sort.Strings(out)

	return out
}

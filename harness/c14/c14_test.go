package c14

import (
	"testing"

	"verifharness/hk"
)

func TestMain(m *testing.M) { hk.Main(m, "C14") }

func TestS1(t *testing.T) {
	hk.RunSub(t, hk.Sub[Plan]{Name: "s1/selectors", Quick: 2500, Thorough: 10000, Gen: Gen, Run: Run, Journal: true})
}

package c01

import (
	"context"
	"encoding/json"
	"fmt"
	"sort"
	"strings"
	"sync"
	"sync/atomic"
	"time"

	"github.com/anishathalye/porcupine"
	"pgregory.net/rapid"

	"github.com/cosi-project/runtime/pkg/resource"
	"github.com/cosi-project/runtime/pkg/state"
	"github.com/cosi-project/runtime/pkg/state/impl/inmem"

	"verifharness/hk"
	"verifharness/hres"
	"verifharness/model"
	"verifharness/sim"
)

// COp is one operation of a concurrent program.
type COp struct {
	K     string `json:"k"` // create get update destroy list
	Key   int    `json:"key"`
	Owner int    `json:"owner"` // 0..2 literal, 3 = owner of the object held by this thread
	Phase int    `json:"phase"`
	Ver   int    `json:"ver"` // 0 as read, 1 bumped, 3 undefined
	Edit  Edit   `json:"edit"`
	Yield int    `json:"yield"` // runtime.Gosched-like pauses before the call
}

// CPlan is a concurrent plan.
type CPlan struct {
	Impl     string  `json:"impl"`
	Keys     int     `json:"keys"`
	Programs [][]COp `json:"programs"`
	// Pre, when set, makes this a re-open run: the resources are committed through a first instance over a
	// persistent backing store, then the programs run as the first accesses of a new instance over the same store,
	// whose Load pauses LoadPauseUS microseconds per record (so that first accesses overlap the lazy load).
	Pre         []PreRes `json:"pre,omitempty"`
	LoadPauseUS int      `json:"load_pause_us,omitempty"`
}

// PreRes is a resource committed before the re-open.
type PreRes struct {
	Key   int  `json:"key"`
	Owner int  `json:"owner"`
	Edit  Edit `json:"edit"`
	Bumps int  `json:"bumps"` // updates applied after the create
}

// GenReopenPlan draws a re-open plan: a persisted state and concurrent first accesses.
func GenReopenPlan(t *rapid.T) CPlan {
	p := GenCPlan("reopen")(t)
	p.Keys = 3
	p.LoadPauseUS = rapid.SampledFrom([]int{0, 50, 200, 1000}).Draw(t, "pause")

	for _, k := range rapid.SliceOfNDistinct(rapid.IntRange(0, 2), 1, 3, rapid.ID[int]).Draw(t, "prekeys") {
		p.Pre = append(p.Pre, PreRes{Key: k, Owner: rapid.IntRange(0, 1).Draw(t, "powner"), Edit: genEdit(t), Bumps: rapid.IntRange(0, 3).Draw(t, "bumps")})
	}

	return p
}

// slowBacking pauses during Load.
type slowBacking struct {
	*sim.MemBacking
	pause time.Duration
}

func (b *slowBacking) Load(ctx context.Context, h inmem.LoadHandler) error {
	return b.MemBacking.Load(ctx, func(typ resource.Type, r resource.Resource) error {
		if b.pause > 0 {
			time.Sleep(b.pause)
		}

		err := h(typ, r)

		if b.pause > 0 {
			time.Sleep(b.pause)
		}

		return err
	})
}

func genCOp(t *rapid.T) COp {
	return COp{
		K:     rapid.SampledFrom([]string{"create", "create", "get", "get", "update", "update", "update", "update", "destroy", "list"}).Draw(t, "k"),
		Key:   rapid.IntRange(0, 2).Draw(t, "key"),
		Owner: rapid.SampledFrom([]int{0, 1, 3, 3, 3}).Draw(t, "owner"),
		Phase: rapid.SampledFrom([]int{0, 0, 1, 1, 3}).Draw(t, "phase"),
		Ver:   rapid.SampledFrom([]int{0, 0, 0, 0, 1, 3}).Draw(t, "ver"),
		Edit:  genEdit(t),
		Yield: rapid.IntRange(0, 3).Draw(t, "yield"),
	}
}

// GenCPlan draws a concurrent plan.
func GenCPlan(impl string) func(*rapid.T) CPlan {
	return func(t *rapid.T) CPlan {
		n := rapid.IntRange(2, 8).Draw(t, "threads")
		p := CPlan{Impl: impl, Keys: rapid.IntRange(1, 3).Draw(t, "keys")}

		for i := 0; i < n; i++ {
			p.Programs = append(p.Programs, rapid.SliceOfN(rapid.Custom(genCOp), 5, 25).Draw(t, fmt.Sprintf("prog%d", i)))
		}

		return p
	}
}

type slot struct {
	Exists bool
	Ver    uint64
	Owner  string
	Phase  int
	Fins   string
	Labels string
	Val    string
}

type st3 struct{ R [3]slot }

func slotOf(m *model.Res) slot {
	if m == nil {
		return slot{}
	}

	f := append([]string(nil), m.Fins...)
	sort.Strings(f)

	var lk []string
	for k, v := range m.Labels {
		lk = append(lk, k+"="+v)
	}

	sort.Strings(lk)

	return slot{Exists: true, Ver: m.Ver, Owner: m.Owner, Phase: m.Phase, Fins: strings.Join(f, ","), Labels: strings.Join(lk, ","), Val: m.Val}
}

type hIn struct {
	K        string
	Key      int
	OptOwner string
	HasExp   bool
	Exp      int
	Obj      slot // object passed to create/update
}

type hOut struct {
	Class model.ErrClass // observable class (plain conflicts collapsed to VersionConflict)
	Got   slot           // get
	List  [3]slot        // list
}

func stepModel(sti, ini, outi interface{}) (bool, interface{}) {
	st := sti.(st3)
	in := ini.(hIn)
	out := outi.(hOut)

	obs := func(c model.ErrClass) model.ErrClass {
		if c.PlainConflict() {
			return model.VersionConflict
		}

		return c
	}

	cur := st.R[in.Key]

	switch in.K {
	case "create":
		if cur.Exists {
			return out.Class == obs(model.AlreadyExists), st
		}

		if out.Class != model.OK {
			return false, st
		}

		n := in.Obj
		n.Exists, n.Ver, n.Owner = true, 1, in.OptOwner
		st.R[in.Key] = n

		return true, st
	case "update":
		var want model.ErrClass

		switch {
		case !cur.Exists:
			want = model.NotFound
		case cur.Owner != in.OptOwner:
			want = model.OwnerConflict
		case cur.Ver != in.Obj.Ver:
			want = model.VersionConflict
		case in.HasExp && cur.Phase != in.Exp:
			want = model.PhaseConflict
		}

		if out.Class != obs(want) {
			return false, st
		}

		if want == model.OK {
			n := in.Obj
			n.Exists, n.Ver = true, cur.Ver+1
			st.R[in.Key] = n
		}

		return true, st
	case "destroy":
		var want model.ErrClass

		switch {
		case !cur.Exists:
			want = model.NotFound
		case cur.Owner != in.OptOwner:
			want = model.OwnerConflict
		case cur.Fins != "":
			want = model.PendingFinalizers
		}

		if out.Class != obs(want) {
			return false, st
		}

		if want == model.OK {
			st.R[in.Key] = slot{}
		}

		return true, st
	case "get":
		if !cur.Exists {
			return out.Class == model.NotFound, st
		}

		return out.Class == model.OK && out.Got == cur, st
	case "list":
		return out.Class == model.OK && out.List == st.R, st
	}

	return false, st
}

func linModel(init st3) porcupine.Model {
	return porcupine.Model{
		Init: func() interface{} { return init },
		Step: stepModel,
		DescribeOperation: func(in, out interface{}) string {
			return fmt.Sprintf("%+v -> %+v", in, out)
		},
	}
}

var s4IDs = []string{"a", "b", "c"}

// RunS4 executes the programs on real threads and checks the history.
func RunS4(p CPlan) (v hk.Verdict) {
	var (
		st   state.CoreState
		init st3
	)

	ctx := context.Background()

	if p.Pre != nil {
		backing := sim.NewMemBacking()
		first := inmem.NewStateWithOptions(inmem.WithBackingStore(backing))("n1")

		for _, pr := range p.Pre {
			r := hres.New("n1", "TA", s4IDs[pr.Key], fmt.Sprintf("pre%d", pr.Key))
			applyEdit(r, pr.Edit)

			if err := first.Create(ctx, r, state.WithCreateOwner(owners[pr.Owner])); err != nil {
				v.Failf("harness: pre-create: %v", err)

				return v
			}

			for b := 0; b < pr.Bumps; b++ {
				r.SetValue(fmt.Sprintf("pre%d.%d", pr.Key, b))

				if err := first.Update(ctx, r, state.WithUpdateOwner(owners[pr.Owner]), state.WithExpectedPhaseAny()); err != nil {
					v.Failf("harness: pre-update: %v", err)

					return v
				}
			}

			got, err := first.Get(ctx, r.Metadata())
			if err != nil {
				v.Failf("harness: pre-get: %v", err)

				return v
			}

			init.R[pr.Key] = slotOf(model.FromResource(got))
		}

		st = inmem.NewStateWithOptions(inmem.WithBackingStore(&slowBacking{MemBacking: backing, pause: time.Duration(p.LoadPauseUS) * time.Microsecond}))("n1")
	} else {
		impl, err := sim.Build(p.Impl)
		if err != nil {
			v.Failf("harness: cannot build %s: %v", p.Impl, err)

			return v
		}

		defer impl.Close()

		st = impl.State
	}

	var (
		clock atomic.Int64
		mu    sync.Mutex
		hist  []porcupine.Operation
		wg    sync.WaitGroup
	)

	start := make(chan struct{})

	for ti, prog := range p.Programs {
		wg.Add(1)

		go func() {
			defer wg.Done()

			held := map[int]resource.Resource{}
			local := make([]porcupine.Operation, 0, len(prog))

			<-start

			for oi, op := range prog {
				key := op.Key % p.Keys
				id := s4IDs[key]
				ptr := resource.NewMetadata("n1", "TA", id, resource.VersionUndefined)
				in := hIn{K: op.K, Key: key}

				var out hOut

				ownerOpt := ""
				if op.Owner < 3 {
					ownerOpt = owners[op.Owner]
				} else if h := held[key]; h != nil {
					ownerOpt = h.Metadata().Owner()
				}

				for y := 0; y < op.Yield; y++ {
					time.Sleep(0)
				}

				var call, ret int64

				switch op.K {
				case "create":
					r := hres.New("n1", "TA", id, fmt.Sprintf("t%d.%d", ti, oi))
					applyEdit(r, op.Edit)
					in.Obj = slotOf(model.FromResource(r))
					in.OptOwner = ownerOpt

					call = clock.Add(1)
					err := st.Create(ctx, r, state.WithCreateOwner(ownerOpt))
					ret = clock.Add(1)

					out.Class = model.Classify(err)
					if err == nil {
						held[key] = r
					}
				case "update":
					var r resource.Resource
					if h := held[key]; h != nil {
						r = h.DeepCopy()
					} else {
						r = hres.New("n1", "TA", id, "")
					}

					applyEdit(r, op.Edit)

					if hr, ok := r.(*hres.R); ok {
						hr.SetValue(fmt.Sprintf("t%d.%d", ti, oi))
					}

					switch op.Ver {
					case 1:
						r.Metadata().SetVersion(r.Metadata().Version().Next())
					case 3:
						r.Metadata().SetVersion(resource.VersionUndefined)
					}

					opts, exp := updateOpts(Op{Owner: 0, Phase: op.Phase})
					opts = append(opts, state.WithUpdateOwner(ownerOpt))
					in.Obj = slotOf(model.FromResource(r))
					in.OptOwner = ownerOpt

					if exp != nil {
						in.HasExp, in.Exp = true, *exp
					}

					call = clock.Add(1)
					err := st.Update(ctx, r, opts...)
					ret = clock.Add(1)

					out.Class = model.Classify(err)
					if err == nil {
						held[key] = r
					}
				case "destroy":
					in.OptOwner = ownerOpt

					call = clock.Add(1)
					err := st.Destroy(ctx, ptr, state.WithDestroyOwner(ownerOpt))
					ret = clock.Add(1)

					out.Class = model.Classify(err)
				case "get":
					call = clock.Add(1)
					r, err := st.Get(ctx, ptr)
					ret = clock.Add(1)

					out.Class = model.Classify(err)
					if err == nil {
						out.Got = slotOf(model.FromResource(r))
						held[key] = r
					}
				case "list":
					call = clock.Add(1)
					l, err := st.List(ctx, ptr)
					ret = clock.Add(1)

					out.Class = model.Classify(err)

					for _, it := range l.Items {
						for ki, kid := range s4IDs {
							if it.Metadata().ID() == kid {
								out.List[ki] = slotOf(model.FromResource(it))
							}
						}
					}
				}

				local = append(local, porcupine.Operation{ClientId: ti, Input: in, Output: out, Call: call, Return: ret})
			}

			mu.Lock()
			hist = append(hist, local...)
			mu.Unlock()
		}()
	}

	close(start)
	wg.Wait()

	// non-triviality: two operations on one key overlapping in real time, at least one a write
	sort.Slice(hist, func(i, j int) bool { return hist[i].Call < hist[j].Call })

	overlaps := 0

	for i := range hist {
		a := hist[i].Input.(hIn)

		for j := i + 1; j < len(hist) && hist[j].Call < hist[i].Return; j++ {
			b := hist[j].Input.(hIn)
			if (a.Key == b.Key || a.K == "list" || b.K == "list") && (isWrite(a.K) || isWrite(b.K)) {
				overlaps++
			}
		}
	}

	if overlaps > 0 {
		v.NonTrivial = true

		v.Label("overlapping-writes")
	}

	if overlaps >= 10 {
		v.Label("overlapping-writes>=10")
	}

	res := porcupine.CheckOperationsTimeout(linModel(init), hist, 5*time.Second)

	switch res {
	case porcupine.Illegal:
		b, _ := json.Marshal(describeHistory(hist))
		v.Failf("history of %d operations by %d threads on %s is not linearizable w.r.t. the sequential store spec; history=%s", len(hist), len(p.Programs), p.Impl, b)
	case porcupine.Unknown:
		v.Inconclusive = true

		v.Label("porcupine-budget-exhausted")
	}

	v.Outcome = fmt.Sprintf("%d ops, %d overlapping pairs, %s", len(hist), overlaps, res)

	return v
}

func isWrite(k string) bool { return k == "create" || k == "update" || k == "destroy" }

func describeHistory(h []porcupine.Operation) []string {
	out := make([]string, 0, len(h))
	for _, o := range h {
		out = append(out, fmt.Sprintf("c%d [%d,%d] %+v -> %+v", o.ClientId, o.Call, o.Return, o.Input, o.Output))
	}

	return out
}

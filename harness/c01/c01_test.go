package c01

import (
	"testing"

	"verifharness/hk"
	"verifharness/sim"
)

func TestMain(m *testing.M) { hk.Main(m, "C01") }

func TestS1(t *testing.T) {
	for _, impl := range sim.ImplNames {
		q, th := 2000, 20000
		if impl == "grpc" || impl == "bolt" {
			q, th = 300, 3000
		}

		hk.RunSub(t, hk.Sub[Plan]{Name: "s1/" + impl, Quick: q, Thorough: th, Gen: GenPlan(impl), Run: RunS1})
	}
}

func TestS4(t *testing.T) {
	for _, impl := range []string{"inmem", "namespaced", "backed-mem", "bolt", "grpc"} {
		q, th := 400, 3000
		if impl == "grpc" || impl == "bolt" {
			q, th = 100, 800
		}

		hk.RunSub(t, hk.Sub[CPlan]{Name: "s4/" + impl, Quick: q, Thorough: th, Gen: GenCPlan(impl), Run: RunS4})
	}

	// first accesses of a re-opened persistent-backed state overlapping its lazy load
	hk.RunSub(t, hk.Sub[CPlan]{Name: "s4/reopen", Quick: 1200, Thorough: 6000, Gen: GenReopenPlan, Run: RunS4})
}

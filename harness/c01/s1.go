// Package c01 checks C01: store operations are linearizable w.r.t. the sequential spec and
// every error is classifiable without panicking.
package c01

import (
	"context"
	"errors"
	"fmt"
	"strconv"

	"pgregory.net/rapid"

	"github.com/cosi-project/runtime/pkg/resource"
	"github.com/cosi-project/runtime/pkg/state"

	"verifharness/hk"
	"verifharness/hres"
	"verifharness/model"
	"verifharness/sim"
)

// Edit is a generated modification of the object passed to Update.
type Edit struct {
	Phase  int    `json:"phase"`  // -1 keep, 0 running, 1 tearing down
	AddFin int    `json:"addfin"` // -1 none
	DelFin int    `json:"delfin"` // -1 none
	LabelK int    `json:"labelk"` // -1 none
	LabelV string `json:"labelv"`
	DelLbl int    `json:"dellbl"` // -1 none
	Val    string `json:"val"`    // "" keep
}

// Op is one operation of a sequential plan.
type Op struct {
	K      string `json:"k"` // create update destroy get list
	Key    int    `json:"key"`
	Owner  int    `json:"owner"`  // index into owners: requested owner option; 3 = the owner currently stored (symbolic)
	Phase  int    `json:"phase"`  // expected phase option: 0 default 1 any 2 running 3 tearingDown
	Src    int    `json:"src"`    // which previously returned object to start from
	Ver    int    `json:"ver"`    // 0 as read, 1 bumped, 2 parsed small number, 3 undefined
	VerNum int    `json:"vernum"` // for Ver==2
	Edit   Edit   `json:"edit"`
	QNS    int    `json:"qns"` // qualifier values used for predicate checks: 0 matching, 1 other
	QTyp   int    `json:"qtyp"`
	// ObjOwner (create): the object handed to Create already carries this owner in its metadata (0 = none; an object
	// obtained from an earlier Get, say). An owner that differs from the requested one is refused, state untouched.
	ObjOwner int `json:"objowner,omitempty"`
}

// Plan is a sequential plan.
type Plan struct {
	Impl string `json:"impl"`
	Ops  []Op   `json:"ops"`
}

var (
	s1NS   = []string{"n1", "n2"}
	s1Typ  = []string{"TA", "TB"}
	s1IDs  = []string{"a", "b"}
	owners = hres.Owners
	fins   = hres.Finalizers
	lkeys  = hres.LabelKeys
)

func keyOf(i int, multiNS bool) model.Key {
	i %= 8
	ns := s1NS[i/4]

	if !multiNS {
		ns = "n1"
	}

	return model.Key{NS: ns, Typ: s1Typ[(i/2)%2], ID: s1IDs[i%2]}
}

func genEdit(t *rapid.T) Edit {
	return Edit{
		Phase:  rapid.SampledFrom([]int{-1, -1, 0, 1}).Draw(t, "ephase"),
		AddFin: rapid.IntRange(-2, 2).Draw(t, "addfin"),
		DelFin: rapid.IntRange(-2, 2).Draw(t, "delfin"),
		LabelK: rapid.IntRange(-1, 2).Draw(t, "labelk"),
		LabelV: rapid.SampledFrom([]string{"", "x", "y"}).Draw(t, "labelv"),
		DelLbl: rapid.IntRange(-2, 2).Draw(t, "dellbl"),
		Val:    rapid.SampledFrom([]string{"", "v1", "v2", "v3"}).Draw(t, "val"),
	}
}

func genOp(t *rapid.T) Op {
	return Op{
		K:        rapid.SampledFrom([]string{"create", "create", "update", "update", "update", "update", "destroy", "destroy", "get", "list"}).Draw(t, "k"),
		Key:      rapid.SampledFrom([]int{0, 0, 0, 0, 1, 1, 1, 2, 3, 4, 5, 6, 7}).Draw(t, "key"),
		Owner:    rapid.SampledFrom([]int{0, 1, 2, 3, 3, 3}).Draw(t, "owner"),
		Phase:    rapid.SampledFrom([]int{0, 0, 1, 2, 3}).Draw(t, "phase"),
		Src:      rapid.IntRange(0, 5).Draw(t, "src"),
		Ver:      rapid.SampledFrom([]int{0, 0, 0, 0, 1, 2, 3}).Draw(t, "ver"),
		VerNum:   rapid.IntRange(0, 4).Draw(t, "vernum"),
		Edit:     genEdit(t),
		QNS:      rapid.IntRange(0, 1).Draw(t, "qns"),
		QTyp:     rapid.IntRange(0, 1).Draw(t, "qtyp"),
		ObjOwner: rapid.SampledFrom([]int{0, 0, 0, 0, 1, 2}).Draw(t, "objowner"),
	}
}

// GenPlan draws a plan for an implementation.
func GenPlan(impl string) func(*rapid.T) Plan {
	return func(t *rapid.T) Plan {
		return Plan{Impl: impl, Ops: rapid.SliceOfN(rapid.Custom(genOp), 1, 60).Draw(t, "ops")}
	}
}

func applyEdit(r resource.Resource, e Edit) {
	md := r.Metadata()

	if e.Phase >= 0 {
		md.SetPhase(resource.Phase(e.Phase))
	}

	if e.AddFin >= 0 {
		md.Finalizers().Add(fins[e.AddFin])
	}

	if e.DelFin >= 0 {
		md.Finalizers().Remove(fins[e.DelFin])
	}

	if e.LabelK >= 0 {
		md.Labels().Set(lkeys[e.LabelK], e.LabelV)
	}

	if e.DelLbl >= 0 {
		md.Labels().Delete(lkeys[e.DelLbl])
	}

	if e.Val != "" {
		if hr, ok := r.(*hres.R); ok {
			hr.SetValue(e.Val)
		}
	}
}

func updateOpts(op Op) ([]state.UpdateOption, *int) {
	opts := []state.UpdateOption{state.WithUpdateOwner(owners[op.Owner])}

	var exp *int

	switch op.Phase {
	case 0:
		exp = new(0)
	case 1:
		opts = append(opts, state.WithExpectedPhaseAny())
	case 2:
		opts = append(opts, state.WithExpectedPhase(resource.PhaseRunning))
		exp = new(0)
	case 3:
		opts = append(opts, state.WithExpectedPhase(resource.PhaseTearingDown))
		exp = new(1)
	}

	return opts, exp
}

// CheckPredicates evaluates all error predicates on err against the modelled class; it returns
// a failure description or "". target is the resource the failing call was about.
func CheckPredicates(err error, class model.ErrClass, target model.Key, qns, qtyp int) (fail string) {
	defer func() {
		if r := recover(); r != nil {
			fail = fmt.Sprintf("error predicate panicked on %s error %q: %v", class, err, r)
		}
	}()

	wantNF := class == model.NotFound
	wantC := class == model.AlreadyExists || class == model.OwnerConflict || class == model.VersionConflict ||
		class == model.PhaseConflict || class == model.PendingFinalizers
	wantOC := class == model.OwnerConflict
	wantPC := class == model.PhaseConflict

	if got := state.IsNotFoundError(err); got != wantNF {
		return fmt.Sprintf("IsNotFoundError(%q)=%v, want %v (class %s)", err, got, wantNF, class)
	}

	if got := state.IsConflictError(err); got != wantC {
		return fmt.Sprintf("IsConflictError(%q)=%v, want %v (class %s)", err, got, wantC, class)
	}

	if got := state.IsOwnerConflictError(err); got != wantOC {
		return fmt.Sprintf("IsOwnerConflictError(%q)=%v, want %v (class %s)", err, got, wantOC, class)
	}

	if got := state.IsPhaseConflictError(err); got != wantPC {
		return fmt.Sprintf("IsPhaseConflictError(%q)=%v, want %v (class %s)", err, got, wantPC, class)
	}

	if state.IsUnsupportedError(err) {
		return fmt.Sprintf("IsUnsupportedError(%q)=true", err)
	}

	if state.IsInvalidWatchBookmarkError(err) {
		return fmt.Sprintf("IsInvalidWatchBookmarkError(%q)=true", err)
	}

	// qualifiers: every subset of {namespace, type}, with matching or non-matching values
	nsVal, nsMatch := target.NS, true
	if qns == 1 {
		nsVal, nsMatch = "other-ns", false
	}

	typVal, typMatch := target.Typ, true
	if qtyp == 1 {
		typVal, typMatch = "other-type", false
	}

	if got := state.IsConflictError(err, state.WithResourceNamespace(nsVal)); got != (wantC && nsMatch) {
		return fmt.Sprintf("IsConflictError(%q, WithResourceNamespace(%q))=%v, want %v (class %s)", err, nsVal, got, wantC && nsMatch, class)
	}

	if got := state.IsConflictError(err, state.WithResourceType(typVal)); got != (wantC && typMatch) {
		return fmt.Sprintf("IsConflictError(%q, WithResourceType(%q))=%v, want %v (class %s)", err, typVal, got, wantC && typMatch, class)
	}

	if got := state.IsConflictError(err, state.WithResourceNamespace(nsVal), state.WithResourceType(typVal)); got != (wantC && nsMatch && typMatch) {
		return fmt.Sprintf("IsConflictError(%q, ns=%q, type=%q)=%v, want %v (class %s)", err, nsVal, typVal, got, wantC && nsMatch && typMatch, class)
	}

	return ""
}

type heldObj struct {
	r resource.Resource
}

// RunS1 interprets a plan against the implementation and the model.
func RunS1(p Plan) (v hk.Verdict) {
	impl, err := sim.Build(p.Impl)
	if err != nil {
		v.Failf("harness: cannot build %s: %v", p.Impl, err)

		return v
	}

	defer impl.Close()

	return RunS1On(impl.State, impl.MultiNS, p)
}

// RunS1On interprets a plan against st.
func RunS1On(st state.CoreState, multiNS bool, p Plan) (v hk.Verdict) {
	ctx := context.Background()
	m := model.NewStore()
	held := map[model.Key][]heldObj{}
	created := map[model.Key]int64{} // creation time of the live incarnation

	allKeys := []model.Key{}
	seen := map[model.Key]bool{}

	for i := 0; i < 8; i++ {
		k := keyOf(i, multiNS)
		if !seen[k] {
			seen[k] = true

			allKeys = append(allKeys, k)
		}
	}

	compareAll := func(step int, what string) bool {
		for _, k := range allKeys {
			got, err := st.Get(ctx, resource.NewMetadata(k.NS, k.Typ, k.ID, resource.VersionUndefined))
			want := m.Get(k)

			switch {
			case err != nil && !state.IsNotFoundError(err):
				v.Failf("step %d (%s): Get(%s) failed with unclassified error %v", step, what, k, err)

				return false
			case err != nil && want != nil:
				v.Failf("step %d (%s): Get(%s) not found, model has %s", step, what, k, want)

				return false
			case err == nil:
				if d := model.Diff(got, want); d != "" {
					v.Failf("step %d (%s): Get(%s): %s", step, what, k, d)

					return false
				}

				if want != nil {
					if c, ok := created[k]; ok && got.Metadata().Created().UnixNano() != c {
						v.Failf("step %d (%s): creation time of %s changed: %d -> %d", step, what, k, c, got.Metadata().Created().UnixNano())

						return false
					}
				}
			}
		}

		kinds := map[[2]string]bool{}
		for _, k := range allKeys {
			kinds[[2]string{k.NS, k.Typ}] = true
		}

		for kind := range kinds {
			list, err := st.List(ctx, resource.NewMetadata(kind[0], kind[1], "", resource.VersionUndefined))
			if err != nil {
				v.Failf("step %d (%s): List(%v) failed: %v", step, what, kind, err)

				return false
			}

			want := m.List(kind[0], kind[1])
			if len(list.Items) != len(want) {
				v.Failf("step %d (%s): List(%v) has %d items, model %d", step, what, kind, len(list.Items), len(want))

				return false
			}

			for i := range want {
				if d := model.Diff(list.Items[i], want[i]); d != "" {
					v.Failf("step %d (%s): List(%v)[%d]: %s", step, what, kind, i, d)

					return false
				}
			}
		}

		return true
	}

	for i, op := range p.Ops {
		k := keyOf(op.Key, multiNS)
		what := fmt.Sprintf("%s %s", op.K, k)
		cur := m.Get(k)

		if op.Owner == 3 {
			op.Owner = 0

			if cur != nil {
				for oi, o := range owners {
					if o == cur.Owner {
						op.Owner = oi
					}
				}
			}
		}

		var (
			gotErr error
			want   model.ErrClass
		)

		// for write-through failures injected by the "backed-faulty" implementation: the model is rolled back
		prevVal, prevInc, prevLog, prevCreated, hadCreated := m.Get(k), m.Incs[k], len(m.Log), created[k], false
		if prevVal != nil {
			prevVal = prevVal.Clone()
		}

		_, hadCreated = created[k]

		switch op.K {
		case "create":
			r := hres.New(k.NS, k.Typ, k.ID, "c"+strconv.Itoa(i))
			applyEdit(r, op.Edit)

			if op.Ver == 2 {
				ver, _ := resource.ParseVersion(strconv.Itoa(op.VerNum))
				r.Metadata().SetVersion(ver)
			}

			if op.ObjOwner > 0 {
				_ = r.Metadata().SetOwner(owners[op.ObjOwner])
			}

			if op.ObjOwner > 0 && owners[op.ObjOwner] != owners[op.Owner] {
				// the owner is set only once: the request contradicts the object
				want = model.Other
			} else {
				want = m.Create(model.FromResource(r), owners[op.Owner])
			}

			gotErr = st.Create(ctx, r, state.WithCreateOwner(owners[op.Owner]))

			if gotErr == nil && want == model.OK {
				if d := model.Diff(r, m.Get(k)); d != "" {
					v.Failf("step %d (%s): write-back into the caller's object: %s", i, what, d)

					return v
				}

				held[k] = append(held[k], heldObj{r.DeepCopy()})

				// creation time as stored
				if g, err := st.Get(ctx, r.Metadata()); err == nil {
					created[k] = g.Metadata().Created().UnixNano()
				}
			}
		case "update":
			var r resource.Resource

			if hs := held[k]; len(hs) > 0 {
				r = hs[op.Src%len(hs)].r.DeepCopy()
			} else {
				r = hres.New(k.NS, k.Typ, k.ID, "u"+strconv.Itoa(i))
			}

			applyEdit(r, op.Edit)

			switch op.Ver {
			case 1:
				r.Metadata().SetVersion(r.Metadata().Version().Next())
			case 2:
				ver, _ := resource.ParseVersion(strconv.Itoa(op.VerNum))
				r.Metadata().SetVersion(ver)
			case 3:
				r.Metadata().SetVersion(resource.VersionUndefined)
			}

			opts, exp := updateOpts(op)
			mr := model.FromResource(r)

			if r.Metadata().Version().String() != "undefined" && r.Metadata().Version().Value() == 0 {
				// version "0" is distinct from undefined in the implementation; the model uses 0 for
				// undefined, so map a defined zero onto a value that can never match.
				mr.Ver = ^uint64(0)
			}

			// exclusion: the update would succeed and silently change the stored owner
			if cur != nil && mr.Owner != cur.Owner && cur.Owner == owners[op.Owner] && cur.Ver == mr.Ver && (exp == nil || *exp == cur.Phase) {
				v.Label("excluded-owner-change")

				continue
			}

			if cur != nil && cur.Ver != mr.Ver && cur.Owner == owners[op.Owner] {
				v.Label("stale-version")

				v.NonTrivial = true
			}

			reasons := 0

			if cur != nil {
				if cur.Owner != owners[op.Owner] {
					reasons++
				}

				if cur.Ver != mr.Ver {
					reasons++
				}

				if exp != nil && *exp != cur.Phase {
					reasons++
				}

				if reasons >= 2 {
					v.Label("multi-reason-failure")

					v.NonTrivial = true
				}
			}

			want = m.Update(mr, owners[op.Owner], exp)
			gotErr = st.Update(ctx, r, opts...)

			if gotErr == nil && want == model.OK {
				if d := model.Diff(r, m.Get(k)); d != "" {
					v.Failf("step %d (%s): write-back into the caller's object: %s", i, what, d)

					return v
				}

				held[k] = append(held[k], heldObj{r.DeepCopy()})
			}
		case "destroy":
			if cur != nil && cur.Owner != owners[op.Owner] && len(cur.Fins) > 0 {
				v.Label("multi-reason-failure")

				v.NonTrivial = true
			}

			want = m.Destroy(k, owners[op.Owner])
			gotErr = st.Destroy(ctx, resource.NewMetadata(k.NS, k.Typ, k.ID, resource.VersionUndefined), state.WithDestroyOwner(owners[op.Owner]))

			if want == model.OK {
				delete(created, k)
			}
		case "get":
			r, err := st.Get(ctx, resource.NewMetadata(k.NS, k.Typ, k.ID, resource.VersionUndefined))
			gotErr = err

			if cur == nil {
				want = model.NotFound
			} else if err == nil {
				held[k] = append(held[k], heldObj{r})
			}
		case "list":
			// covered by compareAll
		}

		if errors.Is(gotErr, sim.ErrFaultyBacking) {
			// the write was rejected by the backing store: "every failed call leaves the state untouched"
			if want != model.OK {
				v.Failf("step %d (%s): the model rejects the call (%s) but it reached the backing store", i, what, want)

				return v
			}

			if prevVal == nil {
				delete(m.M, k)
			} else {
				m.M[k] = prevVal
			}

			m.Incs[k] = prevInc
			m.Log = m.Log[:prevLog]

			if hadCreated {
				created[k] = prevCreated
			} else {
				delete(created, k)
			}

			v.Label("write-rejected-by-backing-store")

			v.NonTrivial = true

			if !compareAll(i, what+" (rejected by the backing store)") {
				return v
			}

			continue
		}

		got := model.Classify(gotErr)
		if !model.SameObservable(want, got) {
			v.Failf("step %d (%s): model says %s, implementation returned %v (class %s)", i, what, want, gotErr, got)

			return v
		}

		if gotErr != nil {
			v.Label("err:" + want.String())

			if want != model.NotFound {
				v.Label("qualified-predicate-on-conflict")

				v.NonTrivial = true
			}

			if f := CheckPredicates(gotErr, want, k, op.QNS, op.QTyp); f != "" {
				v.Failf("step %d (%s): %s", i, what, f)

				return v
			}
		}

		if !compareAll(i, what) {
			return v
		}
	}

	v.Outcome = fmt.Sprintf("%d commits", len(m.Log))

	return v
}

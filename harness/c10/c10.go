// Package c10 checks C10: persistent store - acknowledged writes survive crashes; memory never diverges.
package c10

import (
	"bytes"
	"context"
	"errors"
	"fmt"
	"os"
	"strconv"
	"strings"
	"sync"
	"time"

	"go.etcd.io/bbolt"
	"pgregory.net/rapid"

	"github.com/cosi-project/runtime/pkg/resource"
	"github.com/cosi-project/runtime/pkg/state"
	"github.com/cosi-project/runtime/pkg/state/impl/inmem"
	"github.com/cosi-project/runtime/pkg/state/impl/namespaced"
	"github.com/cosi-project/runtime/pkg/state/impl/store"
	"github.com/cosi-project/runtime/pkg/state/impl/store/bolt"
	"github.com/cosi-project/runtime/pkg/state/impl/store/compression"
	"github.com/cosi-project/runtime/pkg/state/impl/store/encryption"

	"verifharness/hk"
	"verifharness/hres"
	"verifharness/model"
	"verifharness/sim"
)

// Op is a step of the sequential plan.
type Op struct {
	K     string `json:"k"` // create update stale destroy get reopen
	Key   int    `json:"key"`
	Owner int    `json:"owner"` // 0..2, 3 = stored owner
	Size  int    `json:"size"`  // value size class
	Phase int    `json:"phase"` // -1 keep
	Fin   int    `json:"fin"`   // -2..2: <0 remove, >0 add (index abs-1), 0 nothing
	Label int    `json:"label"`
}

// Fault makes the n-th backing-store call of a kind fail (counted per incarnation of the process-wide store).
type Fault struct {
	Kind string `json:"kind"` // put destroy load
	N    int    `json:"n"`
}

// Plan is a C10 sequential plan.
type Plan struct {
	Stack  []string `json:"stack"`
	MinSz  []int    `json:"minsz"`
	Ops    []Op     `json:"ops"`
	Faults []Fault  `json:"faults"`
}

var (
	sizes  = []int{0, 1, 40, 63, 64, 65, 200, 5000}
	keyDom = []model.Key{{NS: "n1", Typ: "TA", ID: "a"}, {NS: "n1", Typ: "TA", ID: "b"}, {NS: "n1", Typ: "TB", ID: "a"}, {NS: "n2", Typ: "TA", ID: "a"}}
	key32  = bytes.Repeat([]byte{3}, 32)
	zstdC  = compression.ZStd()
)

// Gen draws a sequential plan.
func Gen(t *rapid.T) Plan {
	p := Plan{Stack: rapid.SliceOfN(rapid.SampledFrom([]string{"z", "e"}), 0, 2).Draw(t, "stack")}
	for range p.Stack {
		p.MinSz = append(p.MinSz, rapid.SampledFrom([]int{0, 1, 64, 1 << 20}).Draw(t, "minsz"))
	}

	p.Ops = rapid.SliceOfN(rapid.Custom(func(t *rapid.T) Op {
		return Op{
			K:     rapid.SampledFrom([]string{"create", "create", "update", "update", "update", "stale", "destroy", "destroy", "get", "reopen", "reopen"}).Draw(t, "k"),
			Key:   rapid.SampledFrom([]int{0, 0, 0, 1, 1, 2, 3}).Draw(t, "key"),
			Owner: rapid.SampledFrom([]int{3, 3, 3, 0, 1}).Draw(t, "owner"),
			Size:  rapid.IntRange(0, len(sizes)-1).Draw(t, "size"),
			Phase: rapid.SampledFrom([]int{-1, -1, -1, 0, 1}).Draw(t, "phase"),
			Fin:   rapid.IntRange(-2, 2).Draw(t, "fin"),
			Label: rapid.IntRange(0, 3).Draw(t, "label"),
		}
	}), 8, 40).Draw(t, "ops")

	p.Faults = rapid.SliceOfN(rapid.Custom(func(t *rapid.T) Fault {
		return Fault{Kind: rapid.SampledFrom([]string{"put", "put", "destroy", "load"}).Draw(t, "fkind"), N: rapid.IntRange(0, 10).Draw(t, "fn")}
	}), 0, 3).Draw(t, "faults")

	return p
}

func buildMarshaler(stack []string, minsz []int) store.Marshaler {
	var m store.Marshaler = store.ProtobufMarshaler{}

	for i, l := range stack {
		switch l {
		case "z":
			m = compression.NewMarshaler(m, zstdC, minsz[i])
		case "e":
			m = encryption.NewMarshaler(m, encryption.NewCipher(encryption.KeyProviderFunc(func() ([]byte, error) { return key32, nil })))
		}
	}

	return m
}

var errInjected = errors.New("injected backing store failure")

// faulty rejects scripted calls before forwarding them.
type faulty struct {
	inner  inmem.BackingStore
	ctr    *counters
	faults []Fault
}

type counters struct {
	mu       sync.Mutex
	n        map[string]int
	Injected int
}

func (f *faulty) hit(kind string) bool {
	f.ctr.mu.Lock()
	defer f.ctr.mu.Unlock()

	n := f.ctr.n[kind]
	f.ctr.n[kind] = n + 1

	for _, x := range f.faults {
		if x.Kind == kind && x.N == n {
			f.ctr.Injected++

			return true
		}
	}

	return false
}

func (f *faulty) Load(ctx context.Context, h inmem.LoadHandler) error {
	if f.hit("load") {
		return errInjected
	}

	return f.inner.Load(ctx, h)
}

func (f *faulty) Put(ctx context.Context, typ resource.Type, r resource.Resource) error {
	if f.hit("put") {
		return errInjected
	}

	return f.inner.Put(ctx, typ, r)
}

func (f *faulty) Destroy(ctx context.Context, typ resource.Type, p resource.Pointer) error {
	if f.hit("destroy") {
		return errInjected
	}

	return f.inner.Destroy(ctx, typ, p)
}

type incarnation struct {
	db     *bbolt.DB
	bs     *bolt.BackingStore
	st     state.State
	core   state.CoreState
	cancel context.CancelFunc
	mu     sync.Mutex
	events []state.Event
	expect int // successful commits on the watched kind in this incarnation
}

// settle waits (bounded) until the watcher has received every event of the commits made so far.
func (in *incarnation) settle() {
	for i := 0; i < 2000 && in.nevents() < in.expect; i++ {
		time.Sleep(500 * time.Microsecond)
	}
}

func open(path string, m store.Marshaler, ctr *counters, faults []Fault, sync bool) (*incarnation, error) {
	var db *bbolt.DB

	bs, err := bolt.NewBackingStore(func() (*bbolt.DB, error) {
		d, err := bbolt.Open(path, 0o600, &bbolt.Options{NoSync: !sync, NoFreelistSync: !sync, Timeout: 5 * time.Second})
		db = d

		return d, err
	}, m)
	if err != nil {
		return nil, err
	}

	core := namespaced.NewState(func(ns resource.Namespace) state.CoreState {
		var b inmem.BackingStore = bs.WithNamespace(ns)
		if ctr != nil {
			b = &faulty{inner: b, ctr: ctr, faults: faults}
		}

		return inmem.NewStateWithOptions(inmem.WithBackingStore(b))(ns)
	})

	return &incarnation{bs: bs, st: state.WrapCore(core), core: core, db: db}, nil
}

func (in *incarnation) close() {
	if in.cancel != nil {
		in.cancel()
	}

	_ = in.bs.Close()
}

// watch attaches a kind watcher on n1/TA (retries while the lazy load keeps failing).
func (in *incarnation) watch() error {
	ctx, cancel := context.WithCancel(context.Background())
	in.cancel = cancel
	ch := make(chan state.Event)

	var err error

	for i := 0; i < 6; i++ {
		if err = in.core.WatchKind(ctx, resource.NewMetadata("n1", "TA", "", resource.VersionUndefined), ch); err == nil {
			break
		}
	}

	if err != nil {
		return err
	}

	go func() {
		for {
			select {
			case <-ctx.Done():
				return
			case e := <-ch:
				in.mu.Lock()
				in.events = append(in.events, e)
				in.mu.Unlock()
			}
		}
	}()

	return nil
}

func (in *incarnation) nevents() int {
	in.mu.Lock()
	defer in.mu.Unlock()

	return len(in.events)
}

// firstRead performs the first call on a re-opened state and compares what it shows of n1/TA with the model.
// kind: 0 nothing, 1 aggregated kind watch with bootstrap contents, 2 kind watch with bootstrap contents, 3 List.
// A call rejected because the lazy load was made to fail is repeated (the next call loads completely).
func firstRead(ctx context.Context, core state.CoreState, mdl *model.Store, kind, _ int) string {
	want := map[string]string{}
	for _, r := range mdl.List("n1", "TA") {
		want[r.ID] = strconv.FormatUint(r.Ver, 10)
	}

	md := resource.NewMetadata("n1", "TA", "", resource.VersionUndefined)
	got := map[string]string{}
	what := ""

	wctx, cancel := context.WithCancel(ctx)
	defer cancel()

	collect := func(next func() ([]state.Event, bool)) string {
		for {
			evs, ok := next()
			if !ok {
				return "no Bootstrapped event within 10 s"
			}

			for _, e := range evs {
				switch e.Type {
				case state.Bootstrapped:
					return ""
				case state.Created:
					got[e.Resource.Metadata().ID()] = e.Resource.Metadata().Version().String()
				case state.Errored:
					return fmt.Sprintf("watch failed: %v", e.Error)
				case state.Updated, state.Destroyed, state.Noop:
					return fmt.Sprintf("unexpected %s event in the bootstrap contents", e.Type)
				}
			}
		}
	}

	switch kind {
	case 1:
		what = "aggregated kind watch with bootstrap contents"
		ch := make(chan []state.Event)

		var err error

		for i := 0; i < 6; i++ {
			if err = core.WatchKindAggregated(wctx, md, ch, state.WithBootstrapContents(true)); !isInjected(err) {
				break
			}
		}

		if err != nil {
			return fmt.Sprintf("first call (%s): %v", what, err)
		}

		if msg := collect(func() ([]state.Event, bool) {
			select {
			case evs := <-ch:
				return evs, true
			case <-time.After(10 * time.Second):
				return nil, false
			}
		}); msg != "" {
			return fmt.Sprintf("first call (%s): %s", what, msg)
		}
	case 2:
		what = "kind watch with bootstrap contents"
		ch := make(chan state.Event)

		var err error

		for i := 0; i < 6; i++ {
			if err = core.WatchKind(wctx, md, ch, state.WithBootstrapContents(true)); !isInjected(err) {
				break
			}
		}

		if err != nil {
			return fmt.Sprintf("first call (%s): %v", what, err)
		}

		if msg := collect(func() ([]state.Event, bool) {
			select {
			case e := <-ch:
				return []state.Event{e}, true
			case <-time.After(10 * time.Second):
				return nil, false
			}
		}); msg != "" {
			return fmt.Sprintf("first call (%s): %s", what, msg)
		}
	case 3:
		what = "List"

		var (
			l   resource.List
			err error
		)

		for i := 0; i < 6; i++ {
			if l, err = core.List(wctx, md); !isInjected(err) {
				break
			}
		}

		if err != nil {
			return fmt.Sprintf("first call (%s): %v", what, err)
		}

		for _, it := range l.Items {
			got[it.Metadata().ID()] = it.Metadata().Version().String()
		}
	default:
		return ""
	}

	if fmt.Sprint(got) != fmt.Sprint(want) {
		return fmt.Sprintf("the first call on the re-opened state (%s) shows %v, the acknowledged operations left %v", what, got, want)
	}

	return ""
}

func valOf(size, n int) string {
	s := "v" + strconv.Itoa(n) + ":"
	if sizes[size] > len(s) {
		s += strings.Repeat("x", sizes[size]-len(s))
	}

	return s
}

func isInjected(err error) bool { return err != nil && errors.Is(err, errInjected) }

// Run interprets the sequential plan.
//
//nolint:gocyclo,gocognit,cyclop,maintidx
func Run(p Plan) (v hk.Verdict) {
	path := sim.TempPath("c10") + ".db"
	defer os.Remove(path)

	m := buildMarshaler(p.Stack, p.MinSz)
	ctr := &counters{n: map[string]int{}}

	in, err := open(path, m, ctr, p.Faults, false)
	if err != nil {
		v.Failf("harness: open: %v", err)

		return v
	}

	defer func() { in.close() }()

	if err := in.watch(); err != nil && !isInjected(err) {
		v.Failf("watch: %v", err)

		return v
	}

	ctx := context.Background()
	mdl := model.NewStore()
	created := map[model.Key]int64{}
	held := map[model.Key][]resource.Resource{}
	reopens, afterDeleteOrFail := 0, false
	sawDeleteOrFail := false

	// a call may fail because the lazy load was rejected: the statement says it fails the triggering call and the next
	// call loads completely. retryLoad runs the call again in that case.
	compare := func(step int, what string) bool {
		for _, k := range keyDom {
			var (
				g   resource.Resource
				err error
			)

			for try := 0; try < 5; try++ {
				g, err = in.core.Get(ctx, resource.NewMetadata(k.NS, k.Typ, k.ID, resource.VersionUndefined))
				if !isInjected(err) {
					break
				}
			}

			want := mdl.Get(k)

			switch {
			case err != nil && !state.IsNotFoundError(err):
				v.Failf("step %d (%s): Get(%s): %v", step, what, k, err)

				return false
			case err != nil && want != nil:
				v.Failf("step %d (%s): %s is gone, the model (acknowledged operations) has %s", step, what, k, want)

				return false
			case err == nil:
				if d := model.Diff(g, want); d != "" {
					v.Failf("step %d (%s): %s: %s", step, what, k, d)

					return false
				}

				if c, ok := created[k]; ok && want != nil && g.Metadata().Created().UnixNano() != c {
					v.Failf("step %d (%s): creation time of %s changed: %d -> %d", step, what, k, c, g.Metadata().Created().UnixNano())

					return false
				}
			}
		}

		for _, kind := range [][2]string{{"n1", "TA"}, {"n1", "TB"}, {"n2", "TA"}} {
			l, err := in.core.List(ctx, resource.NewMetadata(kind[0], kind[1], "", resource.VersionUndefined))
			if err != nil {
				v.Failf("step %d (%s): List(%v): %v", step, what, kind, err)

				return false
			}

			if want := mdl.List(kind[0], kind[1]); len(l.Items) != len(want) {
				v.Failf("step %d (%s): List(%v) has %d items (duplicates or losses), model %d", step, what, kind, len(l.Items), len(want))

				return false
			}
		}

		return true
	}

	ownerOf := func(op Op, k model.Key) string {
		if op.Owner < 3 {
			return hres.Owners[op.Owner]
		}

		if c := mdl.Get(k); c != nil {
			return c.Owner
		}

		return ""
	}

	edit := func(r resource.Resource, op Op, n int) {
		r.(*hres.R).SetValue(valOf(op.Size, n)) //nolint:forcetypeassert

		if op.Phase >= 0 {
			r.Metadata().SetPhase(resource.Phase(op.Phase))
		}

		switch {
		case op.Fin > 0:
			r.Metadata().Finalizers().Add(hres.Finalizers[op.Fin-1])
		case op.Fin < 0:
			r.Metadata().Finalizers().Remove(hres.Finalizers[-op.Fin-1])
		}

		switch op.Label {
		case 1:
			r.Metadata().Labels().Set("k1", "l"+strconv.Itoa(n))
		case 2:
			r.Metadata().Annotations().Set("a1", "n"+strconv.Itoa(n))
		case 3:
			r.Metadata().Labels().Delete("k1")
		}
	}

	for i, op := range p.Ops {
		k := keyDom[op.Key]
		ptr := resource.NewMetadata(k.NS, k.Typ, k.ID, resource.VersionUndefined)
		what := fmt.Sprintf("%s %s", op.K, k)
		owner := ownerOf(op, k)

		in.settle()

		evBefore := in.nevents()
		injBefore := ctr.Injected

		var (
			gotErr error
			want   model.ErrClass
			did    bool
		)

		switch op.K {
		case "reopen":
			in.close()

			in, err = open(path, m, ctr, p.Faults, false)
			if err != nil {
				v.Failf("step %d: reopen: %v", i, err)

				return v
			}

			// the very first call on the re-opened state is a read of a drawn kind: it must see every acknowledged
			// operation, whichever entry point triggers the lazy load
			if msg := firstRead(ctx, in.core, mdl, op.Label, op.Key); msg != "" {
				v.Failf("step %d (reopen %s): %s", i, k, msg)

				return v
			}

			if err := in.watch(); err != nil && !isInjected(err) {
				v.Failf("step %d: watch after reopen: %v", i, err)

				return v
			}

			reopens++

			if sawDeleteOrFail {
				afterDeleteOrFail = true
			}

			held = map[model.Key][]resource.Resource{} // objects survive only as values; keep none across processes
		case "create":
			r := hres.New(k.NS, k.Typ, k.ID, "")
			edit(r, op, i)

			mr := model.FromResource(r)

			gotErr = in.core.Create(ctx, r, state.WithCreateOwner(owner))
			did = true

			if !isInjected(gotErr) {
				want = mdl.Create(mr, owner)
				if want == model.OK && gotErr == nil {
					// the model stored the value before the call wrote version/owner back: same content
					if g, err := in.core.Get(ctx, ptr); err == nil {
						created[k] = g.Metadata().Created().UnixNano()
						held[k] = append(held[k], g)
					}
				}
			}
		case "update", "stale":
			var r resource.Resource

			if op.K == "stale" && len(held[k]) > 0 {
				r = held[k][0].DeepCopy()
			} else {
				g, err := in.core.Get(ctx, ptr)
				if isInjected(err) {
					g, err = in.core.Get(ctx, ptr)
				}

				if err != nil {
					continue
				}

				r = g
			}

			// exclusion as in C01: an update that would succeed while silently changing the owner
			if c := mdl.Get(k); c != nil && r.Metadata().Owner() != c.Owner {
				continue
			}

			edit(r, op, i)

			mr := model.FromResource(r)

			gotErr = in.core.Update(ctx, r, state.WithUpdateOwner(owner), state.WithExpectedPhaseAny())
			did = true

			if !isInjected(gotErr) {
				want = mdl.Update(mr, owner, nil)
				if want == model.OK && gotErr == nil {
					// Update wrote the new version into r; the model bumped its own
					held[k] = append(held[k], r.DeepCopy())
				}
			}
		case "destroy":
			gotErr = in.core.Destroy(ctx, ptr, state.WithDestroyOwner(owner))
			did = true

			if !isInjected(gotErr) {
				want = mdl.Destroy(k, owner)
				if want == model.OK {
					delete(created, k)

					sawDeleteOrFail = true
				}
			}
		case "get":
			_, gotErr = in.core.Get(ctx, ptr)
			did = true

			if !isInjected(gotErr) {
				if mdl.Get(k) == nil {
					want = model.NotFound
				}
			}
		}

		if did {
			switch {
			case isInjected(gotErr):
				// rejected by the backing store (or by a failed lazy load): nothing may have changed
				sawDeleteOrFail = true

				v.Label("injected-rejection:" + op.K)

				// no event for the rejected operation: write a marker and wait for it
				if op.K != "get" {
					if f := noEventSince(in, evBefore, k); f != "" {
						v.Failf("step %d (%s): the backing store rejected the write, yet %s", i, what, f)

						return v
					}
				}
			case ctr.Injected > injBefore:
				v.Failf("step %d (%s): the backing store rejected a call (injected), but the operation reported %v", i, what, gotErr)

				return v
			default:
				if got := model.Classify(gotErr); !model.SameObservable(want, got) {
					v.Failf("step %d (%s): model says %s, implementation returned %v", i, what, want, gotErr)

					return v
				}

				if gotErr == nil && op.K != "get" && k.NS == "n1" && k.Typ == "TA" {
					in.expect++
				}
			}
		}

		if !compare(i, what) {
			return v
		}
	}

	if reopens > 0 && afterDeleteOrFail {
		v.NonTrivial = true

		v.Label("reopen-after-delete-or-failed-write")
	}

	if reopens > 0 {
		v.Label("reopen")
	}

	v.Outcome = fmt.Sprintf("%d ops, %d reopens, %d injected rejections, stack %v", len(p.Ops), reopens, ctr.Injected, p.Stack)

	return v
}

// noEventSince waits (bounded) for watcher quiescence and reports an event about key k received after index from.
func noEventSince(in *incarnation, from int, k model.Key) string {
	if k.NS != "n1" || k.Typ != "TA" {
		return ""
	}

	// give the watcher goroutine time to forward anything that was published
	last := -1

	for i := 0; i < 20; i++ {
		n := in.nevents()
		if n == last {
			break
		}

		last = n

		time.Sleep(2 * time.Millisecond)
	}

	in.mu.Lock()
	defer in.mu.Unlock()

	for _, e := range in.events[from:] {
		if e.Resource != nil && e.Resource.Metadata().ID() == k.ID {
			return fmt.Sprintf("a watcher received %s for it", e.Type)
		}
	}

	return ""
}

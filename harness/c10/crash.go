package c10

import (
	"bufio"
	"context"
	"fmt"
	"math/rand"
	"os"
	"os/exec"
	"strconv"
	"strings"
	"syscall"
	"time"

	"pgregory.net/rapid"

	"github.com/cosi-project/runtime/pkg/resource"
	"github.com/cosi-project/runtime/pkg/state"

	"verifharness/hk"
	"verifharness/hres"
	"verifharness/model"
	"verifharness/sim"
)

// CPlan is a crash plan: a seed-determined program run by a worker process that is killed with SIGKILL.
type CPlan struct {
	Seed   int      `json:"seed"`
	NOps   int      `json:"nops"`
	KillUs int      `json:"killus"` // kill this long after the worker reported it is ready
	Stack  []string `json:"stack"`
	MinSz  []int    `json:"minsz"`
}

// GenC draws a crash plan.
func GenC(t *rapid.T) CPlan {
	p := CPlan{Seed: rapid.IntRange(1, 1<<30).Draw(t, "seed"), NOps: rapid.IntRange(20, 400).Draw(t, "nops"),
		KillUs: rapid.SampledFrom([]int{0, 50, 200, 500, 1000, 3000, 10000, 30000}).Draw(t, "killus")}

	p.Stack = rapid.SliceOfN(rapid.SampledFrom([]string{"z", "e"}), 0, 2).Draw(t, "stack")
	for range p.Stack {
		p.MinSz = append(p.MinSz, rapid.SampledFrom([]int{0, 64, 1 << 20}).Draw(t, "minsz"))
	}

	return p
}

type wop struct {
	k     string
	key   model.Key
	val   string
	fin   int
	phase int
}

// program derives the deterministic operation list from the seed.
func program(seed, n int) []wop {
	r := rand.New(rand.NewSource(int64(seed))) //nolint:gosec

	ops := make([]wop, n)
	for i := range ops {
		ops[i] = wop{
			k:     []string{"create", "create", "update", "update", "update", "destroy"}[r.Intn(6)],
			key:   keyDom[r.Intn(len(keyDom))],
			val:   valOf(r.Intn(len(sizes)), i),
			fin:   r.Intn(5) - 2,
			phase: r.Intn(3) - 1,
		}
	}

	return ops
}

// applyReal performs the operation on the state; it returns whether it succeeded.
func applyReal(ctx context.Context, st state.CoreState, op wop) bool {
	ptr := resource.NewMetadata(op.key.NS, op.key.Typ, op.key.ID, resource.VersionUndefined)

	switch op.k {
	case "create":
		r := hres.New(op.key.NS, op.key.Typ, op.key.ID, op.val)

		return st.Create(ctx, r) == nil
	case "update":
		g, err := st.Get(ctx, ptr)
		if err != nil {
			return false
		}

		editW(g, op)

		return st.Update(ctx, g, state.WithExpectedPhaseAny()) == nil
	case "destroy":
		return st.Destroy(ctx, ptr) == nil
	}

	return false
}

func editW(r resource.Resource, op wop) {
	r.(*hres.R).SetValue(op.val) //nolint:forcetypeassert

	if op.phase >= 0 {
		r.Metadata().SetPhase(resource.Phase(op.phase))
	}

	switch {
	case op.fin > 0:
		r.Metadata().Finalizers().Add(hres.Finalizers[op.fin-1])
	case op.fin < 0:
		r.Metadata().Finalizers().Remove(hres.Finalizers[-op.fin-1])
	}
}

// applyModel performs the operation on the model; it returns whether it succeeded.
func applyModel(m *model.Store, op wop) bool {
	switch op.k {
	case "create":
		return m.Create(&model.Res{Key: op.key, Val: op.val}, "") == model.OK
	case "update":
		cur := m.Get(op.key)
		if cur == nil {
			return false
		}

		n := cur.Clone()
		n.Val = op.val

		if op.phase >= 0 {
			n.Phase = op.phase
		}

		switch {
		case op.fin > 0:
			f := hres.Finalizers[op.fin-1]

			has := false

			for _, x := range n.Fins {
				if x == f {
					has = true
				}
			}

			if !has {
				n.Fins = append(n.Fins, f)
			}
		case op.fin < 0:
			f := hres.Finalizers[-op.fin-1]

			var keep []string

			for _, x := range n.Fins {
				if x != f {
					keep = append(keep, x)
				}
			}

			n.Fins = keep
		}

		return m.Update(n, "", nil) == model.OK
	case "destroy":
		return m.Destroy(op.key, "") == model.OK
	}

	return false
}

// WorkerMain is the body of the worker process (re-executed test binary).
func WorkerMain() {
	args := strings.Split(os.Getenv("VERIF_C10_WORKER"), "|")
	path, logPath := args[0], args[1]
	seed, _ := strconv.Atoi(args[2])
	n, _ := strconv.Atoi(args[3])

	var (
		stack []string
		minsz []int
	)

	if args[4] != "" {
		stack = strings.Split(args[4], ",")
		for _, s := range strings.Split(args[5], ",") {
			v, _ := strconv.Atoi(s)
			minsz = append(minsz, v)
		}
	}

	lf, err := os.OpenFile(logPath, os.O_CREATE|os.O_WRONLY|os.O_APPEND, 0o600)
	if err != nil {
		os.Exit(3)
	}

	in, err := open(path, buildMarshaler(stack, minsz), nil, nil, true)
	if err != nil {
		os.Exit(4)
	}

	ctx := context.Background()

	_, _ = lf.WriteString("READY\n")

	for i, op := range program(seed, n) {
		_, _ = lf.WriteString("BEGIN " + strconv.Itoa(i) + "\n")
		ok := applyReal(ctx, in.core, op)
		_, _ = lf.WriteString("ACK " + strconv.Itoa(i) + " " + strconv.FormatBool(ok) + "\n")
	}

	_, _ = lf.WriteString("DONE\n")

	in.close()
	os.Exit(0)
}

func snapshotOf(ctx context.Context, st state.CoreState) (map[model.Key]*model.Res, error) {
	out := map[model.Key]*model.Res{}

	for _, k := range keyDom {
		g, err := st.Get(ctx, resource.NewMetadata(k.NS, k.Typ, k.ID, resource.VersionUndefined))
		if err != nil {
			if state.IsNotFoundError(err) {
				continue
			}

			return nil, err
		}

		out[k] = model.FromResource(g)
	}

	return out, nil
}

func sameSnap(a map[model.Key]*model.Res, b map[model.Key]*model.Res) bool {
	if len(a) != len(b) {
		return false
	}

	for k, x := range a {
		if !model.EqualValue(x, b[k]) {
			return false
		}
	}

	return true
}

// RunC runs one crash case.
func RunC(p CPlan) (v hk.Verdict) {
	base := sim.TempPath("c10crash")
	path, logPath := base+".db", base+".log"

	defer os.Remove(path)
	defer os.Remove(logPath)

	ms := make([]string, len(p.MinSz))
	for i, x := range p.MinSz {
		ms[i] = strconv.Itoa(x)
	}

	cmd := exec.Command(os.Args[0], "-test.run", "^TestWorkerEntry$")
	cmd.Env = append(os.Environ(), "VERIF_C10_WORKER="+strings.Join([]string{path, logPath, strconv.Itoa(p.Seed), strconv.Itoa(p.NOps), strings.Join(p.Stack, ","), strings.Join(ms, ",")}, "|"), "VERIF_REPLAY=")

	if err := cmd.Start(); err != nil {
		v.Failf("harness: cannot start worker: %v", err)

		return v
	}

	// wait until the worker is ready, then kill it after the drawn delay
	deadline := time.Now().Add(20 * time.Second)

	for {
		b, _ := os.ReadFile(logPath)
		if strings.Contains(string(b), "READY") {
			break
		}

		if time.Now().After(deadline) {
			_ = cmd.Process.Kill()
			_, _ = cmd.Process.Wait()

			v.Inconclusive = true

			v.Label("worker-did-not-start")

			return v
		}

		time.Sleep(200 * time.Microsecond)
	}

	time.Sleep(time.Duration(p.KillUs) * time.Microsecond)

	_ = cmd.Process.Signal(syscall.SIGKILL)
	_, _ = cmd.Process.Wait()

	// parse the log
	f, err := os.Open(logPath)
	if err != nil {
		v.Failf("harness: %v", err)

		return v
	}

	acked := map[int]bool{}
	lastBegin, done := -1, false

	sc := bufio.NewScanner(f)
	for sc.Scan() {
		fs := strings.Fields(sc.Text())

		switch {
		case len(fs) == 2 && fs[0] == "BEGIN":
			lastBegin, _ = strconv.Atoi(fs[1])
		case len(fs) == 3 && fs[0] == "ACK":
			i, _ := strconv.Atoi(fs[1])
			acked[i] = fs[2] == "true"
		case len(fs) == 1 && fs[0] == "DONE":
			done = true
		}
	}

	_ = f.Close()

	prog := program(p.Seed, p.NOps)
	mdl := model.NewStore()
	nacked := 0

	for i, op := range prog {
		res, ok := acked[i]
		if !ok {
			break
		}

		if got := applyModel(mdl, op); got != res {
			v.Failf("operation %d %+v was acknowledged with success=%v, the model says %v", i, op, res, got)

			return v
		}

		nacked++
	}

	inflight := lastBegin >= nacked && lastBegin < len(prog) && !done

	// reopen
	in, err := open(path, buildMarshaler(p.Stack, p.MinSz), nil, nil, true)
	if err != nil {
		v.Failf("cannot reopen the database after the crash (%d acknowledged operations): %v", nacked, err)

		return v
	}

	defer in.close()

	ctx := context.Background()

	got, err := snapshotOf(ctx, in.core)
	if err != nil {
		v.Failf("cannot read the reopened state after the crash (%d acknowledged operations): %v", nacked, err)

		return v
	}

	ok := sameSnap(got, mdl.Snapshot())

	if !ok && inflight {
		alt := model.NewStore()
		for _, op := range prog[:nacked] {
			applyModel(alt, op)
		}

		applyModel(alt, prog[lastBegin])

		if sameSnap(got, alt.Snapshot()) {
			ok = true
			mdl = alt
			nacked = lastBegin + 1
		}
	} else if ok && inflight {
		// the in-flight operation did not land (or was a no-op): continue after it
		nacked = lastBegin
	}

	if !ok {
		v.Failf("after SIGKILL with %d acknowledged operations (in flight: %v #%d) the reopened state is %v, the acknowledged prefix gives %v", nacked, inflight, lastBegin, descSnap(got), descSnap(mdl.Snapshot()))

		return v
	}

	// later operations behave as if no restart happened
	rest := prog[nacked:]
	if len(rest) > 30 {
		rest = rest[:30]
	}

	for i, op := range rest {
		if inflight && i == 0 && nacked == lastBegin {
			// outcome of re-running the in-flight operation is determined by which state we are in: mdl is that state
			_ = i
		}

		want := applyModel(mdl, op)
		if res := applyReal(ctx, in.core, op); res != want {
			v.Failf("after the restart, operation %+v returned success=%v, the model says %v", op, res, want)

			return v
		}
	}

	after, err := snapshotOf(ctx, in.core)
	if err != nil || !sameSnap(after, mdl.Snapshot()) {
		v.Failf("after the restart and %d further operations the state is %v, the model has %v (%v)", len(rest), descSnap(after), descSnap(mdl.Snapshot()), err)

		return v
	}

	if inflight {
		v.NonTrivial = true

		v.Label("killed-during-operation")
	} else if !done {
		v.Label("killed-between-operations")
	} else {
		v.Label("worker-finished-before-kill")
	}

	v.Outcome = fmt.Sprintf("%d acknowledged of %d, inflight=%v", nacked, len(prog), inflight)

	return v
}

func descSnap(m map[model.Key]*model.Res) []string {
	var out []string
	for _, r := range m {
		out = append(out, r.String())
	}

	return out
}

package c10

import (
	"os"
	"testing"

	"verifharness/hk"
)

func TestMain(m *testing.M) {
	if os.Getenv("VERIF_C10_WORKER") != "" {
		WorkerMain()
	}

	hk.Main(m, "C10")
}

func TestWorkerEntry(t *testing.T) {}

func TestS1(t *testing.T) {
	hk.RunSub(t, hk.Sub[Plan]{Name: "s1/persistence", Quick: 1500, Thorough: 6000, Gen: Gen, Run: Run})
}

func TestCrash(t *testing.T) {
	hk.RunSub(t, hk.Sub[CPlan]{Name: "s5/sigkill", Quick: 40, Thorough: 100, Gen: GenC, Run: RunC})
}

func TestConcurrent(t *testing.T) {
	hk.RunSub(t, hk.Sub[WPlan]{Name: "s4/concurrent-writers", Quick: 400, Thorough: 1500, Gen: GenW, Run: RunW})
}

func TestCancelled(t *testing.T) {
	hk.RunSub(t, hk.Sub[XPlan]{Name: "s4/cancelled-writes", Quick: 150, Thorough: 1500, Gen: GenX, Run: RunX})
}

package c10

import (
	"context"
	"errors"
	"fmt"
	"os"
	"strings"
	"time"

	"go.etcd.io/bbolt"
	"pgregory.net/rapid"

	"github.com/cosi-project/runtime/pkg/resource"
	"github.com/cosi-project/runtime/pkg/state"

	"verifharness/hk"
	"verifharness/hres"
	"verifharness/sim"
)

// XStep is one write of the cancelled-writes plan.
type XStep struct {
	Key     int  `json:"key"`
	Size    int  `json:"size"`
	Destroy bool `json:"destroy,omitempty"`
	// Cancel: the caller's context is cancelled while the write waits for the database (another writer holds bbolt's
	// single write lock meanwhile). Whatever the call then reports is binding: success means the write is there after
	// a restart, an error means it left no trace.
	Cancel bool `json:"cancel,omitempty"`
}

// XPlan is the cancelled-writes plan: one writer, a bolt-backed state, contexts cancelled mid-write, then a re-open.
type XPlan struct {
	Stack []string `json:"stack"`
	MinSz []int    `json:"minsz"`
	Steps []XStep  `json:"steps"`
}

// GenX draws a cancelled-writes plan.
func GenX(t *rapid.T) XPlan {
	p := XPlan{Stack: rapid.SliceOfN(rapid.SampledFrom([]string{"z", "e"}), 0, 2).Draw(t, "stack")}
	for range p.Stack {
		p.MinSz = append(p.MinSz, rapid.SampledFrom([]int{0, 64}).Draw(t, "minsz"))
	}

	p.Steps = rapid.SliceOfN(rapid.Custom(func(t *rapid.T) XStep {
		return XStep{
			Key:     rapid.IntRange(0, 2).Draw(t, "key"),
			Size:    rapid.SampledFrom([]int{2, 4, 6}).Draw(t, "size"),
			Destroy: rapid.IntRange(0, 4).Draw(t, "destroy") == 0,
			Cancel:  rapid.IntRange(0, 2).Draw(t, "cancel") == 0,
		}
	}), 3, 12).Draw(t, "steps")

	return p
}

// RunX executes the cancelled-writes plan.
//
//nolint:gocyclo,gocognit,cyclop
func RunX(p XPlan) (v hk.Verdict) {
	path := sim.TempPath("c10x") + ".db"
	defer os.Remove(path)

	m := buildMarshaler(p.Stack, p.MinSz)

	in, err := open(path, m, nil, nil, false)
	if err != nil {
		v.Failf("harness: open: %v", err)

		return v
	}

	ctx := context.Background()
	ids := []string{"a", "b", "c"}
	acked := map[string]string{} // id -> value; absent = not there
	cancelledWrites, refused := 0, 0

	for n, st := range p.Steps {
		id := ids[st.Key]
		ptr := resource.NewMetadata("n1", "TA", id, resource.VersionUndefined)
		val := fmt.Sprintf("x%d-", n)

		if len(val) < sizes[st.Size] {
			val += strings.Repeat("y", sizes[st.Size]-len(val))
		}

		_, exists := acked[id]
		if st.Destroy && !exists {
			continue
		}

		call := func(c context.Context) error {
			switch {
			case st.Destroy:
				return in.core.Destroy(c, ptr)
			case !exists:
				return in.core.Create(c, hres.New("n1", "TA", id, val))
			default:
				_, err := in.st.UpdateWithConflicts(c, ptr, func(r resource.Resource) error {
					r.(*hres.R).SetValue(val) //nolint:forcetypeassert

					return nil
				})

				return err
			}
		}

		var cerr error

		if st.Cancel && in.db != nil {
			held, release := make(chan struct{}), make(chan struct{})
			lockDone := make(chan struct{})

			go func() {
				defer close(lockDone)

				_ = in.db.Update(func(*bbolt.Tx) error {
					close(held)
					<-release

					return nil
				})
			}()

			<-held

			cctx, cancel := context.WithCancel(ctx)
			done := make(chan error, 1)

			go func() { done <- call(cctx) }()

			time.Sleep(2 * time.Millisecond)
			cancel()
			time.Sleep(2 * time.Millisecond)
			close(release)
			<-lockDone

			cerr = <-done

			cancel()

			cancelledWrites++
		} else {
			cerr = call(ctx)
		}

		switch {
		case cerr == nil:
			if st.Destroy {
				delete(acked, id)
			} else {
				acked[id] = val
			}
		case errors.Is(cerr, context.Canceled) && st.Cancel:
			refused++ // reported as failed: must leave no trace
		default:
			v.Failf("step %d (%+v): %v", n, st, cerr)

			in.close()

			return v
		}
	}

	// let a write that outlived its caller finish before the file is closed
	time.Sleep(5 * time.Millisecond)

	check := func(when string, core state.CoreState) bool {
		for _, id := range ids {
			g, err := core.Get(ctx, resource.NewMetadata("n1", "TA", id, resource.VersionUndefined))
			want, exists := acked[id]

			switch {
			case err != nil && !state.IsNotFoundError(err):
				v.Failf("%s: Get(%s): %v", when, id, err)

				return false
			case err != nil && exists:
				v.Failf("%s: n1/TA/%s is gone, the last acknowledged write left %q (%d writes were reported as failed after their context was cancelled: they must leave no trace)", when, id, clip(want), refused)

				return false
			case err == nil && !exists:
				v.Failf("%s: n1/TA/%s holds %q, the acknowledged operations left nothing there (%d writes were reported as failed after their context was cancelled)", when, id, clip(hres.Value(g)), refused)

				return false
			case err == nil && hres.Value(g) != want:
				v.Failf("%s: n1/TA/%s holds %q, the last acknowledged write left %q (%d writes were reported as failed after their context was cancelled: they must leave no trace)", when, id, clip(hres.Value(g)), clip(want), refused)

				return false
			}
		}

		return true
	}

	if !check("before the re-open", in.core) {
		in.close()

		return v
	}

	in.close()

	in2, err := open(path, m, nil, nil, false)
	if err != nil {
		v.Failf("re-open: %v", err)

		return v
	}

	defer in2.close()

	if !check("after the re-open", in2.core) {
		return v
	}

	v.NonTrivial = cancelledWrites > 0

	if cancelledWrites > 0 {
		v.Label("context-cancelled-while-waiting-for-the-database")
	}

	if refused > 0 {
		v.Label("cancelled-write-refused")
	}

	v.Outcome = fmt.Sprintf("%d steps, %d with a cancelled context, %d refused", len(p.Steps), cancelledWrites, refused)

	return v
}

package c10

import (
	"context"
	"fmt"
	"os"
	"strings"
	"sync"

	"pgregory.net/rapid"

	"github.com/cosi-project/runtime/pkg/resource"
	"github.com/cosi-project/runtime/pkg/state"

	"verifharness/hk"
	"verifharness/hres"
	"verifharness/sim"
)

// WPlan is the concurrent-writers plan: several real goroutines, each the only writer of its own collection
// (namespace, type), write through one persistent-backed state at the same time; every acknowledged write has to be
// there, with its own contents, after the store is closed and opened again. (Collections serialise their own writers;
// the backing store and its marshaler stacking are shared by all of them.)
type WPlan struct {
	Stack   []string `json:"stack"`
	MinSz   []int    `json:"minsz"`
	Writers int      `json:"writers"`
	// Steps per writer: sizes (index into sizes) of the values written one after the other to ids a, b, c in turn;
	// a negative entry destroys the id instead.
	Steps [][]int `json:"steps"`
}

var wcolls = [][2]string{{"n1", "TA"}, {"n1", "TB"}, {"n1", "TC"}, {"n2", "TA"}, {"n2", "TB"}, {"n2", "TC"}}

// GenW draws a concurrent-writers plan.
func GenW(t *rapid.T) WPlan {
	p := WPlan{Stack: rapid.SliceOfN(rapid.SampledFrom([]string{"z", "z", "e"}), 0, 2).Draw(t, "stack")}
	for range p.Stack {
		p.MinSz = append(p.MinSz, rapid.SampledFrom([]int{0, 1, 64}).Draw(t, "minsz"))
	}

	p.Writers = rapid.IntRange(2, len(wcolls)).Draw(t, "writers")

	for w := 0; w < p.Writers; w++ {
		p.Steps = append(p.Steps, rapid.SliceOfN(rapid.SampledFrom([]int{-1, 2, 3, 4, 5, 6, 6, 7, 7}), 4, 30).Draw(t, "steps"))
	}

	return p
}

// RunW executes the concurrent-writers plan.
func RunW(p WPlan) (v hk.Verdict) {
	path := sim.TempPath("c10w") + ".db"
	defer os.Remove(path)

	m := buildMarshaler(p.Stack, p.MinSz)

	in, err := open(path, m, nil, nil, false)
	if err != nil {
		v.Failf("harness: open: %v", err)

		return v
	}

	ctx := context.Background()
	ids := []string{"a", "b", "c"}

	type acked map[string]string // id -> value ("" = absent)

	results := make([]acked, p.Writers)
	errs := make([]string, p.Writers)

	var wg sync.WaitGroup

	start := make(chan struct{})

	for w := 0; w < p.Writers; w++ {
		wg.Add(1)

		go func() {
			defer wg.Done()

			ns, typ := wcolls[w][0], wcolls[w][1]
			have := acked{}

			<-start

			for n, sz := range p.Steps[w] {
				id := ids[n%len(ids)]
				ptr := resource.NewMetadata(ns, typ, id, resource.VersionUndefined)

				if sz < 0 {
					if err := in.core.Destroy(ctx, ptr); err == nil {
						delete(have, id)
					} else if !state.IsNotFoundError(err) {
						errs[w] = fmt.Sprintf("writer %d: Destroy(%s): %v", w, ptr, err)

						return
					}

					continue
				}

				val := fmt.Sprintf("w%d-%s-%d-", w, id, n)
				if len(val) < sizes[sz] {
					val += strings.Repeat(string(rune('a'+w)), sizes[sz]-len(val))
				}

				if _, ok := have[id]; !ok {
					if err := in.core.Create(ctx, hres.New(ns, typ, id, val)); err != nil {
						errs[w] = fmt.Sprintf("writer %d: Create(%s): %v", w, ptr, err)

						return
					}
				} else {
					if _, err := in.st.UpdateWithConflicts(ctx, ptr, func(r resource.Resource) error {
						r.(*hres.R).SetValue(val) //nolint:forcetypeassert

						return nil
					}); err != nil {
						errs[w] = fmt.Sprintf("writer %d: Update(%s): %v", w, ptr, err)

						return
					}
				}

				have[id] = val
			}

			results[w] = have
		}()
	}

	close(start)
	wg.Wait()
	in.close()

	for _, e := range errs {
		if e != "" {
			v.Failf("%s", e)

			return v
		}
	}

	// a new incarnation over the same file
	in2, err := open(path, m, nil, nil, false)
	if err != nil {
		v.Failf("re-open: %v", err)

		return v
	}

	defer in2.close()

	compressed := false

	for w := 0; w < p.Writers; w++ {
		ns, typ := wcolls[w][0], wcolls[w][1]

		l, err := in2.core.List(ctx, resource.NewMetadata(ns, typ, "", resource.VersionUndefined))
		if err != nil {
			v.Failf("after the re-open the contents of %s/%s (written by writer %d while %d others wrote to other collections; stack %v thresholds %v) cannot be loaded: %v", ns, typ, w, p.Writers-1, p.Stack, p.MinSz, err)

			return v
		}

		got := acked{}
		for _, it := range l.Items {
			got[it.Metadata().ID()] = hres.Value(it)
		}

		for _, id := range ids {
			if got[id] != results[w][id] {
				v.Failf("after the re-open %s/%s/%s holds %q, the last acknowledged write by its only writer (%d) was %q (stack %v thresholds %v, %d concurrent writers on other collections)",
					ns, typ, id, clip(got[id]), w, clip(results[w][id]), p.Stack, p.MinSz, p.Writers-1)

				return v
			}

			if len(got[id]) >= 64 && len(p.Stack) > 0 {
				compressed = true
			}
		}
	}

	v.NonTrivial = compressed

	if compressed {
		v.Label("concurrent-writers-through-a-stacked-marshaler")
	}

	v.Outcome = fmt.Sprintf("%d writers, stack %v", p.Writers, p.Stack)

	return v
}

func clip(s string) string {
	if len(s) > 40 {
		return s[:40] + fmt.Sprintf("...(%d bytes)", len(s))
	}

	return s
}

package c03

import (
	"context"
	"fmt"
	"sync"
	"time"

	"pgregory.net/rapid"

	"github.com/cosi-project/runtime/pkg/resource"
	"github.com/cosi-project/runtime/pkg/state"
	"github.com/cosi-project/runtime/pkg/state/impl/inmem"

	"verifharness/hk"
	"verifharness/hres"
	"verifharness/sim"
)

// Stress variant (S4): real goroutines over a persistent-backed state whose backing store is slow. The gate scheduler
// of the S2 variant treats one store call as one step; here the Go scheduler interleaves other parties with the inside
// of a store call (for instance while it talks to the backing store). Oracle (i) of the statement over the kind watch:
// no Destroyed event carries a finalizer, and a finalizer whose addition was acknowledged and that was never removed
// keeps its resource alive.

// SRound is one round: a destroyer and a finalizer holder on one fresh resource.
type SRound struct {
	Destroyer int  `json:"destroyer"` // 0 TeardownAndDestroy, 1 Teardown then Destroy when ready, 2 Destroy only
	HolderUS  int  `json:"holder_us"` // delay before AddFinalizer
	HoldUS    int  `json:"hold_us"`   // how long the finalizer is held before it is removed (0: never removed)
	PreFin    bool `json:"prefin"`    // the resource starts with another finalizer that a third party removes
	PreRemUS  int  `json:"prerem_us"` // delay before that removal
}

// SPlan is a stress plan.
type SPlan struct {
	StoreDelayUS int      `json:"store_delay_us"` // backing store Put/Destroy take this long
	Rounds       []SRound `json:"rounds"`
}

// GenS draws a stress plan.
func GenS(t *rapid.T) SPlan {
	p := SPlan{StoreDelayUS: rapid.SampledFrom([]int{0, 100, 500}).Draw(t, "storedelay")}

	p.Rounds = rapid.SliceOfN(rapid.Custom(func(t *rapid.T) SRound {
		return SRound{
			Destroyer: rapid.IntRange(0, 2).Draw(t, "destroyer"),
			HolderUS:  rapid.SampledFrom([]int{0, 0, 50, 200, 600, 1500, 3000}).Draw(t, "holderus"),
			HoldUS:    rapid.SampledFrom([]int{0, 0, 300, 1000}).Draw(t, "holdus"),
			PreFin:    rapid.IntRange(0, 2).Draw(t, "prefin") == 0,
			PreRemUS:  rapid.SampledFrom([]int{0, 100, 1000}).Draw(t, "preremus"),
		}
	}), 2, 8).Draw(t, "rounds")

	return p
}

type slowStore struct {
	*sim.MemBacking
	d time.Duration
}

func (s *slowStore) Put(ctx context.Context, typ resource.Type, r resource.Resource) error {
	if s.d > 0 {
		time.Sleep(s.d)
	}

	return s.MemBacking.Put(ctx, typ, r)
}

func (s *slowStore) Destroy(ctx context.Context, typ resource.Type, p resource.Pointer) error {
	if s.d > 0 {
		time.Sleep(s.d)
	}

	return s.MemBacking.Destroy(ctx, typ, p)
}

// RunS executes the stress plan.
//
//nolint:gocyclo,gocognit,cyclop
func RunS(p SPlan) (v hk.Verdict) {
	core := inmem.NewStateWithOptions(inmem.WithBackingStore(&slowStore{MemBacking: sim.NewMemBacking(), d: time.Duration(p.StoreDelayUS) * time.Microsecond}))("n1")
	st := state.WrapCore(core)

	ctx, cancel := context.WithCancel(context.Background())
	defer cancel()

	evCh := make(chan state.Event, 4096)
	if err := st.WatchKind(ctx, resource.NewMetadata("n1", "TA", "", resource.VersionUndefined), evCh); err != nil {
		v.Failf("harness: %v", err)

		return v
	}

	overlapped := 0

	for ri, rd := range p.Rounds {
		id := fmt.Sprintf("r%d", ri)
		ptr := resource.NewMetadata("n1", "TA", id, resource.VersionUndefined)
		r := hres.New("n1", "TA", id, "x")

		if rd.PreFin {
			r.Metadata().Finalizers().Add("pre")
		}

		if err := st.Create(ctx, r); err != nil {
			v.Failf("harness: create: %v", err)

			return v
		}

		// a holder that never releases its finalizer leaves a blocking destroyer waiting: bound that wait
		limit := 20 * time.Second
		if rd.HoldUS == 0 {
			limit = 150 * time.Millisecond
		}

		rctx, rcancel := context.WithTimeout(ctx, limit)

		var (
			wg                 sync.WaitGroup
			destroyErr, addErr error
			remErr             error
			added, removed     bool
			destroyDone        time.Time
			addStart, addDone  time.Time
			destroyStart       time.Time
		)

		wg.Add(2)

		go func() {
			defer wg.Done()

			destroyStart = time.Now()

			switch rd.Destroyer {
			case 0:
				destroyErr = st.TeardownAndDestroy(rctx, ptr)
			case 1:
				var ready bool

				ready, destroyErr = st.Teardown(rctx, ptr)
				if destroyErr == nil && ready {
					destroyErr = st.Destroy(rctx, ptr)
				}
			default:
				destroyErr = st.Destroy(rctx, ptr)
			}

			destroyDone = time.Now()
		}()

		go func() {
			defer wg.Done()

			if rd.HolderUS > 0 {
				time.Sleep(time.Duration(rd.HolderUS) * time.Microsecond)
			}

			addStart = time.Now()
			addErr = st.AddFinalizer(rctx, ptr, "holder")
			addDone = time.Now()

			if addErr != nil {
				return
			}

			added = true

			if rd.HoldUS > 0 {
				time.Sleep(time.Duration(rd.HoldUS) * time.Microsecond)

				remErr = st.RemoveFinalizer(rctx, ptr, "holder")
				removed = remErr == nil
			}
		}()

		if rd.PreFin {
			wg.Add(1)

			go func() {
				defer wg.Done()

				if rd.PreRemUS > 0 {
					time.Sleep(time.Duration(rd.PreRemUS) * time.Microsecond)
				}

				_ = st.RemoveFinalizer(rctx, ptr, "pre")
			}()
		}

		done := make(chan struct{})

		go func() { wg.Wait(); close(done) }()

		select {
		case <-done:
		case <-time.After(25 * time.Second):
			rcancel()

			v.Inconclusive = true

			v.Label("round-timed-out")

			return v
		}

		rcancel()

		if addStart.Before(destroyDone) && destroyStart.Before(addDone) {
			overlapped++
		}

		// the holder never released its acknowledged finalizer: the resource must still be there, holding it
		if added && !removed && rd.HoldUS == 0 {
			got, err := st.Get(ctx, ptr)
			if err != nil {
				v.Failf("round %d %+v (store delay %dus): AddFinalizer(holder) was acknowledged and the finalizer never removed, yet the resource is gone: %v (destroyer returned %v)", ri, rd, p.StoreDelayUS, err, destroyErr)

				return v
			}

			if !got.Metadata().Finalizers().Has("holder") {
				v.Failf("round %d %+v: acknowledged finalizer is not on the resource: %v", ri, rd, got.Metadata())

				return v
			}

			if destroyErr == nil && rd.Destroyer != 1 {
				v.Failf("round %d %+v: the destroyer reported success while the resource still exists with finalizers %v", ri, rd, *got.Metadata().Finalizers())

				return v
			}

			// release it so that the state does not grow
			_ = st.RemoveFinalizer(ctx, ptr, "holder")
			_ = st.TeardownAndDestroy(ctx, ptr)
		} else if destroyErr != nil || rd.Destroyer == 1 {
			// clean up whatever is left
			cctx, ccancel := context.WithTimeout(ctx, 10*time.Second)
			_ = st.RemoveFinalizer(cctx, ptr, "holder")
			_ = st.RemoveFinalizer(cctx, ptr, "pre")
			_ = st.TeardownAndDestroy(cctx, ptr)

			ccancel()
		}

		if rd.Destroyer == 0 && destroyErr == nil {
			if _, err := st.Get(ctx, ptr); !state.IsNotFoundError(err) && !(added && !removed) {
				v.Failf("round %d %+v: TeardownAndDestroy returned success but the resource is still there (Get: %v)", ri, rd, err)

				return v
			}
		}
	}

	// every Destroyed event carries an empty finalizer set
	for {
		select {
		case ev := <-evCh:
			if ev.Type == state.Destroyed && !ev.Resource.Metadata().Finalizers().Empty() {
				v.Failf("store delay %dus: resource %s was destroyed while it held finalizers %v", p.StoreDelayUS, ev.Resource.Metadata().ID(), *ev.Resource.Metadata().Finalizers())

				return v
			}

			if ev.Type == state.Errored {
				v.Inconclusive = true

				v.Label("watch-overrun")

				return v
			}

			continue
		case <-time.After(50 * time.Millisecond):
		}

		break
	}

	if overlapped > 0 {
		v.NonTrivial = true

		v.Label("finalizer-added-while-destroy-in-flight")
	}

	v.Outcome = fmt.Sprintf("%d rounds, %d overlapping", len(p.Rounds), overlapped)

	return v
}

package c03

import (
	"fmt"

	"github.com/cosi-project/runtime/pkg/state"

	"verifharness/sim"
)

func grpcVariant(variant string, s *sim.Sched) (func(string) state.State, func(), error) {
	return nil, nil, fmt.Errorf("variant %s not built", variant)
}

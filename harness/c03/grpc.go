package c03

import (
	"context"

	"google.golang.org/grpc/codes"
	"google.golang.org/grpc/status"

	"github.com/cosi-project/runtime/api/v1alpha1"
	"github.com/cosi-project/runtime/pkg/state"
	"github.com/cosi-project/runtime/pkg/state/protobuf/server"

	"verifharness/sim"
)

// noNative answers Unimplemented for the Teardown RPCs so that the client's sticky fallback path runs.
type noNative struct {
	*server.State
}

func (noNative) Teardown(context.Context, *v1alpha1.TeardownRequest) (*v1alpha1.TeardownResponse, error) {
	return nil, status.Error(codes.Unimplemented, "method Teardown not implemented")
}

func (noNative) TeardownAndDestroy(context.Context, *v1alpha1.TeardownAndDestroyRequest) (*v1alpha1.TeardownAndDestroyResponse, error) {
	return nil, status.Error(codes.Unimplemented, "method TeardownAndDestroy not implemented")
}

// grpcVariant puts the gate proxy under a real gRPC server: every store call and watch hand-over the server makes on
// behalf of any client is a scheduler step (actor "server"); the actors use one client adapter.
func grpcVariant(variant string, s *sim.Sched) (func(string) state.State, func(), error) {
	px := s.Proxy("server")

	var srv v1alpha1.StateServer = server.NewState(px)
	if variant == "grpc-fallback" {
		srv = noNative{server.NewState(px)}
	}

	pair, err := sim.NewGRPCPair(srv, nil)
	if err != nil {
		return nil, nil, err
	}

	st := state.WrapCore(pair.Adapter)

	return func(string) state.State { return st }, pair.Close, nil
}

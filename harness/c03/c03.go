// Package c03 checks C03: finalizers gate destruction; blocking lifecycle helpers never miss or jump.
package c03

import (
	"context"
	"fmt"
	"slices"
	"strconv"
	"testing"
	"testing/synctest"

	"pgregory.net/rapid"

	"github.com/cosi-project/runtime/pkg/resource"
	"github.com/cosi-project/runtime/pkg/state"

	"verifharness/hk"
	"verifharness/hres"
	"verifharness/model"
	"verifharness/sim"
)

// InitRes is the initial state of a resource.
type InitRes struct {
	Exists bool  `json:"exists"`
	Phase  int   `json:"phase"`
	Fins   []int `json:"fins"`
	Owner  int   `json:"owner"`
}

// Cond is a WatchFor condition.
type Cond struct {
	EventTypes []int  `json:"evtypes"` // 0 created 1 updated 2 destroyed
	Phases     []int  `json:"phases"`
	FinEmpty   bool   `json:"finempty"`
	Val        string `json:"val"` // "" = no predicate; otherwise value must equal
}

// Actor is one concurrent party making a single helper call.
type Actor struct {
	K     string `json:"k"` // teardown tad watchfor ctx addfin remfin destroy create update
	Res   int    `json:"res"`
	Owner int    `json:"owner"` // owner option; 3 = owner of the resource at plan time
	Fin   int    `json:"fin"`
	Cond  Cond   `json:"cond"`
	Val   string `json:"val"`
	// FailWatch (ctx actors, wrap variant): 0 = never; n > 0 = the watch behind the helper fails after n-1 delivered events.
	FailWatch int `json:"failwatch,omitempty"`
}

// Plan is a C03 plan.
type Plan struct {
	Variant string    `json:"variant"` // wrap | grpc | grpc-fallback
	Res     []InitRes `json:"res"`
	Actors  []Actor   `json:"actors"`
	Choices []int     `json:"choices"`
}

var resIDs = []string{"a", "b"}

// Gen draws a plan.
func Gen(variant string) func(t *rapid.T) Plan {
	return func(t *rapid.T) Plan {
		p := Plan{Variant: variant}
		nres := rapid.IntRange(1, 2).Draw(t, "nres")

		for i := 0; i < nres; i++ {
			p.Res = append(p.Res, InitRes{
				Exists: rapid.IntRange(0, 5).Draw(t, "exists") > 0,
				Phase:  rapid.SampledFrom([]int{0, 0, 0, 1}).Draw(t, "phase"),
				Fins:   rapid.SliceOfNDistinct(rapid.IntRange(0, 2), 0, 2, rapid.ID[int]).Draw(t, "fins"),
				Owner:  rapid.SampledFrom([]int{0, 0, 1}).Draw(t, "owner"),
			})
		}

		na := rapid.IntRange(2, 5).Draw(t, "nactors")
		for i := 0; i < na; i++ {
			a := Actor{
				K: rapid.SampledFrom([]string{"teardown", "tad", "tad", "tad", "watchfor", "watchfor", "ctx", "ctx", "addfin", "remfin", "remfin", "remfin",
					"destroy", "create", "update"}).Draw(t, "k"),
				Res:   rapid.IntRange(0, nres-1).Draw(t, "res"),
				Owner: rapid.SampledFrom([]int{3, 3, 3, 3, 0, 1}).Draw(t, "aowner"),
				Fin:   rapid.IntRange(0, 2).Draw(t, "fin"),
				Val:   rapid.SampledFrom([]string{"v1", "v2"}).Draw(t, "val"),
			}

			if a.K == "ctx" && rapid.IntRange(0, 2).Draw(t, "hasfail") == 0 {
				a.FailWatch = rapid.IntRange(1, 3).Draw(t, "failwatch")
			}

			if a.K == "watchfor" {
				a.Cond = Cond{
					EventTypes: rapid.SliceOfNDistinct(rapid.IntRange(0, 2), 0, 2, rapid.ID[int]).Draw(t, "evtypes"),
					Phases:     rapid.SliceOfNDistinct(rapid.IntRange(0, 1), 0, 1, rapid.ID[int]).Draw(t, "phases"),
					FinEmpty:   rapid.Bool().Draw(t, "finempty"),
					Val:        rapid.SampledFrom([]string{"", "", "v1", "v2"}).Draw(t, "cval"),
				}
			}

			p.Actors = append(p.Actors, a)
		}

		// template (one plan in four): a blocked TeardownAndDestroy / WatchFor / teardown-bound context on a resource held
		// by finalizers, racing with the parties that release every finalizer and destroy the resource (the shape in
		// which "no missed wake-up between marking and waiting" is decided; random actors rarely line up like this)
		rate := 3
		if variant != "wrap" {
			rate = 1 // the gRPC variants run far fewer cases
		}

		if rapid.IntRange(0, rate).Draw(t, "race-template") == 0 {
			p.Res[0] = InitRes{Exists: true, Phase: rapid.SampledFrom([]int{0, 0, 1}).Draw(t, "tphase"), Fins: rapid.SliceOfNDistinct(rapid.IntRange(0, 2), 1, 2, rapid.ID[int]).Draw(t, "tfins"),
				Owner: rapid.IntRange(0, 1).Draw(t, "towner")}
			blocked := Actor{K: rapid.SampledFrom([]string{"tad", "tad", "watchfor", "ctx"}).Draw(t, "tblocked"), Res: 0, Owner: 3}

			if blocked.K == "watchfor" {
				blocked.Cond = Cond{FinEmpty: true, Phases: rapid.SampledFrom([][]int{nil, {1}}).Draw(t, "tphases")}
			}

			p.Actors = []Actor{blocked}

			for _, f := range p.Res[0].Fins {
				p.Actors = append(p.Actors, Actor{K: "remfin", Res: 0, Owner: 3, Fin: f})
			}

			p.Actors = append(p.Actors, Actor{K: "destroy", Res: 0, Owner: 3})

			if rapid.Bool().Draw(t, "tteardown") {
				p.Actors = append(p.Actors, Actor{K: "teardown", Res: 0, Owner: 3})
			}
		}

		p.Choices = rapid.SliceOfN(rapid.IntRange(0, 99), 40, 120).Draw(t, "choices")

		return p
	}
}

type actorState struct {
	a        Actor
	name     string
	key      model.Key
	done     bool
	err      error
	ready    bool              // teardown
	got      resource.Resource // watchfor
	tctx     context.Context   // ctx
	cancel   context.CancelFunc
	finished int // number of commits when the actor was first seen finished
	finSet   bool
	step     int
}

// condMatches is the independent evaluation of a WatchFor condition on a delivered event.
func condMatches(c Cond, ev state.Event) bool {
	if len(c.EventTypes) > 0 {
		ok := false

		for _, et := range c.EventTypes {
			if [...]state.EventType{state.Created, state.Updated, state.Destroyed}[et] == ev.Type {
				ok = true
			}
		}

		if !ok {
			return false
		}
	}

	if ev.Resource == nil {
		return false
	}

	if c.Val != "" && hres.Value(ev.Resource) != c.Val {
		return false
	}

	if c.FinEmpty {
		if ev.Type == state.Destroyed || len(*ev.Resource.Metadata().Finalizers()) != 0 {
			return false
		}
	}

	if len(c.Phases) > 0 && !slices.Contains(c.Phases, int(ev.Resource.Metadata().Phase())) {
		return false
	}

	return true
}

func condOpts(c Cond) []state.WatchForConditionFunc {
	var o []state.WatchForConditionFunc

	if len(c.EventTypes) > 0 {
		var ts []state.EventType
		for _, et := range c.EventTypes {
			ts = append(ts, [...]state.EventType{state.Created, state.Updated, state.Destroyed}[et])
		}

		o = append(o, state.WithEventTypes(ts...))
	}

	if len(c.Phases) > 0 {
		var ps []resource.Phase
		for _, ph := range c.Phases {
			ps = append(ps, resource.Phase(ph))
		}

		o = append(o, state.WithPhases(ps...))
	}

	if c.FinEmpty {
		o = append(o, state.WithFinalizerEmpty())
	}

	if c.Val != "" {
		want := c.Val
		o = append(o, state.WithCondition(func(r resource.Resource) (bool, error) { return hres.Value(r) == want, nil }))
	}

	return o
}

// Run executes a plan inside a bubble.
func Run(p Plan) (v hk.Verdict) {
	synctest.Test(hk.T(), func(*testing.T) { v = runBubble(p) })

	return v
}

//nolint:gocyclo,gocognit,cyclop,maintidx
func runBubble(p Plan) (v hk.Verdict) {
	root, cancelRoot := context.WithCancel(context.Background())

	inner := sim.NewNamespaced()
	s := sim.NewSched(inner)

	var (
		mkState func(actor string, failWatch int) state.State
		cleanup = func() {}
	)

	switch p.Variant {
	case "wrap":
		mkState = func(actor string, failWatch int) state.State {
			px := s.Proxy(actor)
			px.FailWatchAfter = failWatch - 1

			return state.WrapCore(px)
		}
	default:
		ms, cl, err := grpcVariant(p.Variant, s)
		if err != nil {
			v.Failf("harness: %v", err)

			cancelRoot()

			return v
		}

		mkState, cleanup = func(actor string, _ int) state.State { return ms(actor) }, cl
	}

	// initial state, written directly (not scheduler steps) but logged as commits via a setup proxy
	setup := s.Proxy("setup")
	setupDone := make(chan struct{})

	go func() {
		defer close(setupDone)

		for i, ir := range p.Res {
			if !ir.Exists {
				continue
			}

			r := hres.New("n1", "TA", resIDs[i], "init")
			r.Metadata().SetPhase(resource.Phase(ir.Phase))

			for _, f := range ir.Fins {
				r.Metadata().Finalizers().Add(hres.Finalizers[f])
			}

			_ = setup.Create(root, r, state.WithCreateOwner(hres.Owners[ir.Owner]))
		}
	}()

	for {
		synctest.Wait()

		select {
		case <-setupDone:
		default:
			g := s.Enabled()
			if len(g) > 0 {
				s.Release(g[0])

				continue
			}
		}

		break
	}

	p0 := s.NCommits()

	actors := make([]*actorState, len(p.Actors))

	for i, a := range p.Actors {
		as := &actorState{a: a, name: "a" + strconv.Itoa(i), key: model.Key{NS: "n1", Typ: "TA", ID: resIDs[a.Res%len(p.Res)]}}
		actors[i] = as

		owner := ""
		if a.Owner < 3 {
			owner = hres.Owners[a.Owner]
		} else if ir := p.Res[a.Res%len(p.Res)]; ir.Exists {
			owner = hres.Owners[ir.Owner]
		}

		ctx, cancel := context.WithCancel(root)
		as.cancel = cancel
		st := mkState(as.name, a.FailWatch)
		ptr := resource.NewMetadata(as.key.NS, as.key.Typ, as.key.ID, resource.VersionUndefined)

		go func() {
			defer func() { as.done = true }()

			switch a.K {
			case "teardown":
				as.ready, as.err = st.Teardown(ctx, ptr, state.WithTeardownOwner(owner))
			case "tad":
				as.err = st.TeardownAndDestroy(ctx, ptr, state.WithTeardownAndDestroyOwner(owner))
			case "watchfor":
				as.got, as.err = st.WatchFor(ctx, ptr, condOpts(a.Cond)...)
			case "ctx":
				as.tctx, as.err = st.ContextWithTeardown(ctx, ptr)
				if as.err == nil {
					<-as.tctx.Done()
				}
			case "addfin":
				as.err = st.AddFinalizer(ctx, ptr, hres.Finalizers[a.Fin])
			case "remfin":
				as.err = st.RemoveFinalizer(ctx, ptr, hres.Finalizers[a.Fin])
			case "destroy":
				as.err = st.Destroy(ctx, ptr, state.WithDestroyOwner(owner))
			case "create":
				as.err = st.Create(ctx, hres.New(as.key.NS, as.key.Typ, as.key.ID, a.Val), state.WithCreateOwner(owner))
			case "update":
				_, as.err = st.UpdateWithConflicts(ctx, ptr, func(r resource.Resource) error {
					r.(*hres.R).SetValue(a.Val) //nolint:forcetypeassert

					return nil
				}, state.WithUpdateOwner(owner), state.WithExpectedPhaseAny())
			}
		}()
	}

	noteFinished := func() {
		n := s.NCommits()

		for _, as := range actors {
			if as.done && !as.finSet {
				as.finSet = true
				as.finished = n
				as.step = s.Step
			}
		}
	}

	exhausted := false

	const maxSteps = 600

	step := 0

	for ; ; step++ {
		synctest.Wait()
		noteFinished()

		gates := s.Enabled()
		if len(gates) == 0 {
			break
		}

		if step >= maxSteps {
			exhausted = true

			break
		}

		c := 0
		if step < len(p.Choices) {
			c = p.Choices[step]
		}

		s.Release(gates[c%len(gates)])
	}

	commits, calls, hands := s.Snapshot()

	// state reconstruction helper
	stateAt := func(n int) map[model.Key]*model.Res {
		m := map[model.Key]*model.Res{}

		for _, c := range commits[:n] {
			if c.Kind == model.Destroyed {
				delete(m, c.New.Key)
			} else {
				m[c.New.Key] = c.New
			}
		}

		return m
	}

	final := stateAt(len(commits))

	if exhausted {
		v.Inconclusive = true

		v.Label("step-budget-exhausted")
	}

	// (o) the finalizer set only changes through the finalizer operations: every commit leaves the set of its
	// predecessor unchanged except for the one finalizer an AddFinalizer / RemoveFinalizer call names, and at the end
	// the store holds exactly what the last commit wrote (nothing reaches the store outside a committed write)
	{
		prev := map[model.Key]*model.Res{}

		for i, c := range commits {
			if old := prev[c.New.Key]; old != nil && c.Kind != model.Created {
				added, removed := 0, 0

				for _, f := range c.New.Fins {
					if !slices.Contains(old.Fins, f) {
						added++
					}
				}

				for _, f := range old.Fins {
					if !slices.Contains(c.New.Fins, f) {
						removed++
					}
				}

				dup := len(slices.Compact(slices.Sorted(slices.Values(c.New.Fins)))) != len(c.New.Fins)

				if added+removed > 1 || dup || (c.Kind == model.Destroyed && added+removed > 0) {
					v.Failf("(o) commit #%d changes the finalizers of %s from %v to %v: more than one finalizer operation's worth (the set was altered outside a finalizer call)", i, c.New.Key, old.Fins, c.New.Fins)
				}
			}

			if c.Kind == model.Destroyed {
				delete(prev, c.New.Key)
			} else {
				prev[c.New.Key] = c.New
			}
		}

		for i := range p.Res {
			k := model.Key{NS: "n1", Typ: "TA", ID: resIDs[i]}

			g, err := inner.Get(root, resource.NewMetadata(k.NS, k.Typ, k.ID, resource.VersionUndefined))

			switch {
			case err != nil && final[k] != nil:
				v.Failf("(o) %s is gone from the store, the last commit wrote %s", k, final[k])
			case err == nil && final[k] == nil:
				v.Failf("(o) the store holds %s, the last commit destroyed it", hres.Describe(g))
			case err == nil:
				if d := model.Diff(g, final[k]); d != "" {
					v.Failf("(o) the store's value of %s differs from what the last commit wrote (changed outside a committed write): %s", k, d)
				}
			}
		}
	}

	// (i) no Destroy commit removes a value with finalizers
	for i, c := range commits {
		if c.Kind == model.Destroyed && len(c.New.Fins) > 0 {
			v.Failf("(i) commit #%d destroyed %s while it held finalizers %v", i, c.New.Key, c.New.Fins)
		}
	}

	for _, as := range actors {
		var mine []sim.Call

		for _, c := range calls {
			if c.Actor == as.name || (p.Variant != "wrap" && c.Actor == "server") {
				mine = append(mine, c)
			}
		}

		var myHands []sim.Handover

		for _, h := range hands {
			if h.Actor == as.name {
				myHands = append(myHands, h)
			}
		}

		switch as.a.K {
		case "teardown":
			if !as.done {
				if !exhausted {
					v.Failf("Teardown by %s never returned although no step is enabled", as.name)
				}

				continue
			}

			if as.err == nil && as.ready && p.Variant == "wrap" {
				// (ii) value the teardown took effect on had no finalizers
				var eff *model.Res

				for _, c := range mine {
					if c.Op == "Update" && c.Err == nil {
						eff = c.Result
					}
				}

				if eff == nil {
					for _, c := range mine {
						if c.Op == "Get" && c.Err == nil {
							eff = c.Result
						}
					}
				}

				if eff == nil || len(eff.Fins) > 0 {
					v.Failf("(ii) Teardown by %s reported ready although the value it took effect on was %s", as.name, eff)
				}

				if eff != nil && eff.Phase != 1 {
					v.Failf("(ii) Teardown by %s reported success but the value it took effect on is not tearing down: %s", as.name, eff)
				}
			}
		case "tad":
			if as.done && as.err == nil {
				// (iii) some Destroyed commit of the key lies between the call start and its return
				found := false

				for i := p0; i < len(commits) && i < as.finished; i++ {
					if commits[i].Kind == model.Destroyed && commits[i].New.Key == as.key {
						found = true
					}
				}

				if !found {
					v.Failf("(iii) TeardownAndDestroy by %s returned nil but %s was never destroyed during the call (state now: %s)", as.name, as.key, final[as.key])
				}
			}

			// (iv') the owner's call is never refused for ownership: its Teardown and its Destroy act as the owner named in
			// the call (unless another party re-created the resource under another owner meanwhile)
			if as.done && as.err != nil && state.IsOwnerConflictError(as.err) && as.a.Owner == 3 {
				recreated := false

				for _, other := range p.Actors {
					if other.K == "create" && other.Res == as.a.Res {
						recreated = true
					}
				}

				if !recreated {
					v.Failf("(iv') TeardownAndDestroy by %s, acting as the owner of %s, failed with an owner conflict: %v (state now: %s)", as.name, as.key, as.err, final[as.key])
				}
			}

			if !as.done && !exhausted {
				cur := final[as.key]
				if cur == nil || len(cur.Fins) == 0 {
					v.Failf("(iv) TeardownAndDestroy by %s is still blocked with no step enabled although %s is %s (missed wake-up)", as.name, as.key, cur)
				} else {
					v.Label("tad-blocked-on-finalizers")
				}
			}
		case "watchfor":
			if p.Variant != "wrap" {
				// over gRPC every store call and hand-over belongs to the actor "server": per-actor attribution is impossible
				continue
			}

			if as.err != nil && as.done && p.Variant == "wrap" {
				v.Failf("WatchFor by %s failed: %v", as.name, as.err)

				continue
			}

			first := -1

			for i, h := range myHands {
				if condMatches(as.a.Cond, h.Event) {
					first = i

					break
				}
			}

			switch {
			case as.done && as.err == nil:
				if first < 0 {
					v.Failf("(v) WatchFor by %s returned %s although no delivered state satisfied the condition %+v", as.name, hres.Describe(as.got), as.a.Cond)
				} else {
					if len(myHands) != first+1 {
						v.Failf("(v) WatchFor by %s: first matching hand-over is #%d but %d hand-overs were consumed", as.name, first, len(myHands))
					}

					if d := model.Diff(as.got, model.FromResource(myHands[first].Event.Resource)); d != "" {
						v.Failf("(v) WatchFor by %s returned a state other than the first satisfying one: %s", as.name, d)
					}

					if first == 0 {
						v.Label("watchfor-initial-state")
					}
				}
			case !as.done && !exhausted:
				if first >= 0 {
					v.Failf("(v) WatchFor by %s is still blocked although hand-over #%d satisfied the condition", as.name, first)
				}

				if len(myHands) == 0 {
					v.Failf("(v) WatchFor by %s received no initial state", as.name)
				}
			}
		case "ctx":
			if p.Variant != "wrap" {
				continue
			}

			if as.err != nil {
				if p.Variant == "wrap" {
					v.Failf("ContextWithTeardown by %s failed: %v", as.name, as.err)
				}

				continue
			}

			if as.tctx == nil || exhausted {
				continue
			}

			// (vi) expected: state at the watch establishment, or a later commit tears down/destroys
			var wat *sim.Call

			for i := range mine {
				if mine[i].Op == "Watch" {
					wat = &mine[i]

					break
				}
			}

			if wat == nil {
				continue
			}

			want := false
			at := stateAt(wat.At)

			if r := at[as.key]; r == nil || r.Phase == 1 {
				want = true
			}

			for _, c := range commits[wat.At:] {
				if c.New.Key == as.key && (c.Kind == model.Destroyed || c.New.Phase == 1) {
					want = true
				}
			}

			// ... or the watch behind the helper failed
			for _, h := range myHands {
				if h.Event.Type == state.Errored {
					want = true

					v.Label("ctx-watch-failed")
				}
			}

			got := as.tctx.Err() != nil
			if got != want {
				v.Failf("(vi) teardown-bound context of %s for %s: done=%v, want %v (state at establishment: %s, now: %s)", as.name, as.key, got, want, at[as.key], final[as.key])
			}

			if !want {
				v.Label("ctx-stays-live")
			}
		}
	}

	// non-triviality: a commit by another party on the same key during a blocking helper's lifetime
	for _, as := range actors {
		if as.a.K != "tad" && as.a.K != "watchfor" && as.a.K != "ctx" && as.a.K != "teardown" {
			continue
		}

		firstStep, lastStep := -1, -1

		for _, c := range calls {
			if c.Actor == as.name {
				if firstStep < 0 {
					firstStep = c.Step
				}

				lastStep = c.Step
			}
		}

		for _, h := range hands {
			if h.Actor == as.name {
				lastStep = h.Step
			}
		}

		for _, c := range calls {
			if c.Actor != as.name && c.Actor != "setup" && c.CommitIdx >= 0 && c.Key == as.key && c.Step > firstStep && c.Step < lastStep {
				v.NonTrivial = true

				v.Label("interleaved-commit:" + as.a.K)
			}
		}
	}

	if p.Variant != "wrap" {
		// over gRPC all calls are the server's: count commits on the helper's resource during its lifetime instead
		for _, as := range actors {
			if as.a.K != "tad" && as.a.K != "teardown" {
				continue
			}

			n := 0

			end := len(commits)
			if as.finSet {
				end = as.finished
			}

			for i := p0; i < end && i < len(commits); i++ {
				if commits[i].New.Key == as.key {
					n++
				}
			}

			if n >= 2 {
				v.NonTrivial = true

				v.Label("grpc-commits-during-helper:" + as.a.K)
			}
		}
	}

	v.Outcome = fmt.Sprintf("%d commits, %d steps", len(commits), step)

	for _, as := range actors {
		as.cancel()
	}

	cancelRoot()
	s.Shutdown()
	cleanup()
	synctest.Wait()

	return v
}

package c03

import (
	"testing"

	"verifharness/hk"
)

func TestMain(m *testing.M) { hk.Main(m, "C03") }

func TestS2(t *testing.T) {
	hk.RunSub(t, hk.Sub[Plan]{Name: "s2/wrap", Quick: 8000, Thorough: 40000, Gen: Gen("wrap"), Run: Run, Journal: true})
	hk.RunSub(t, hk.Sub[Plan]{Name: "s2/grpc-native", Quick: 1500, Thorough: 6000, Gen: Gen("grpc"), Run: Run, Journal: true})
	hk.RunSub(t, hk.Sub[Plan]{Name: "s2/grpc-fallback", Quick: 2500, Thorough: 10000, Gen: Gen("grpc-fallback"), Run: Run, Journal: true})
}

// TestS4 is the stress variant: real goroutines over a slow persistent-backed state.
func TestS4(t *testing.T) {
	hk.RunSub(t, hk.Sub[SPlan]{Name: "s4/backed-slow", Quick: 60, Thorough: 600, Gen: GenS, Run: RunS, Journal: true})
}

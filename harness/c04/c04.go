// Package c04 checks C04: read-modify-write helpers are atomic under contention.
package c04

import (
	"context"
	"errors"
	"fmt"
	"maps"
	"slices"
	"sort"
	"strconv"
	"strings"
	"testing"
	"testing/synctest"

	"pgregory.net/rapid"

	"github.com/cosi-project/runtime/pkg/resource"
	"github.com/cosi-project/runtime/pkg/safe"
	"github.com/cosi-project/runtime/pkg/state"
	"github.com/cosi-project/runtime/pkg/state/owned"

	"verifharness/hk"
	"verifharness/hres"
	"verifharness/model"
	"verifharness/sim"
)

// InitRes is the initial state of a key.
type InitRes struct {
	Exists bool  `json:"exists"`
	Phase  int   `json:"phase"`
	Fins   []int `json:"fins"`
	// Extra finalizers nobody touches, added one at a time before Fins (3 or 5 of them leave the stored finalizer
	// slice with spare capacity, the shape in which a copy that shares its backing array can be written through).
	Extra int `json:"extra,omitempty"`
	Owner  int   `json:"owner"`
}

// Actor is one party making one helper call (or a third-party disturbance).
type Actor struct {
	// K: uwc modify addfin remfin teardown, and third parties tp-phase tp-create tp-destroy tp-recreate.
	// Destroy + re-create restarts versions at 1, so a helper holding a stale read of the previous incarnation can
	// succeed on the new one (ABA). Destroy is not among the steps C04 quantifies over: a key on which such an ABA
	// commit is recognised (the committed value is the helper's mutation applied to a same-version value of an
	// earlier incarnation) is excluded from the value oracles of that case; see DESIGN.md.
	K     string `json:"k"`
	Via   string `json:"via"` // wrap owned safe
	Mut   int    `json:"mut"` // 0 append token 1 set unique label 2 no-op 3 fail
	Owner int    `json:"owner"`
	Phase int    `json:"phase"` // 0 default 1 any 2 running 3 tearingDown
	Fin   int    `json:"fin"`
	Key   int    `json:"key"`
}

// Plan is a C04 plan.
type Plan struct {
	Res     []InitRes `json:"res"`
	Actors  []Actor   `json:"actors"`
	Choices []int     `json:"choices"`
}

var keyIDs = []string{"a", "b"}

var errMut = errors.New("mutator failed")

// Gen draws a plan.
func Gen(t *rapid.T) Plan {
	p := Plan{}
	nres := rapid.SampledFrom([]int{1, 1, 1, 2}).Draw(t, "nres")

	for i := 0; i < nres; i++ {
		p.Res = append(p.Res, InitRes{
			Exists: rapid.IntRange(0, 5).Draw(t, "exists") > 0,
			Phase:  rapid.SampledFrom([]int{0, 0, 0, 0, 0, 0, 0, 1}).Draw(t, "phase"),
			Fins:   rapid.SliceOfNDistinct(rapid.IntRange(0, 2), 0, 2, rapid.ID[int]).Draw(t, "fins"),
			Owner:  rapid.SampledFrom([]int{0, 0, 1}).Draw(t, "owner"),
			Extra:  rapid.SampledFrom([]int{0, 0, 0, 3, 3, 5}).Draw(t, "extrafins"),
		})
	}

	na := rapid.IntRange(2, 6).Draw(t, "nactors")
	for i := 0; i < na; i++ {
		p.Actors = append(p.Actors, Actor{
			K: rapid.SampledFrom([]string{"uwc", "uwc", "uwc", "modify", "modify", "modify", "addfin", "remfin", "teardown", "teardown", "tp-phase",
				"tp-create", "tp-destroy", "tp-recreate"}).Draw(t, "k"),
			Via:   rapid.SampledFrom([]string{"wrap", "wrap", "owned", "safe"}).Draw(t, "via"),
			Mut:   rapid.SampledFrom([]int{0, 0, 0, 1, 1, 2, 3}).Draw(t, "mut"),
			Owner: rapid.SampledFrom([]int{3, 3, 3, 3, 3, 3, 3, 3, 0, 1, 2}).Draw(t, "owner"),
			Phase: rapid.SampledFrom([]int{0, 0, 1, 1, 1, 1, 2, 3}).Draw(t, "phase"),
			Fin:   rapid.IntRange(0, 2).Draw(t, "fin"),
			Key:   rapid.IntRange(0, nres-1).Draw(t, "key"),
		})
	}

	p.Choices = rapid.SliceOfN(rapid.IntRange(0, 99), 30, 150).Draw(t, "choices")

	return p
}

type actorState struct {
	a      Actor
	idx    int
	name   string
	key    model.Key
	owner  string
	exp    *int
	done   bool
	err    error
	ret    resource.Resource
	ready  bool
	ranMut int // how many times the mutator ran
}

func (as *actorState) token() string { return "|t" + strconv.Itoa(as.idx) }
func (as *actorState) label() string { return "l" + strconv.Itoa(as.idx) }

func (as *actorState) mutate(r resource.Resource) error {
	as.ranMut++

	switch as.a.Mut {
	case 0:
		hr := r.(*hres.R) //nolint:forcetypeassert
		hr.SetValue(hr.Value() + as.token())
	case 1:
		r.Metadata().Labels().Set(as.label(), "1")
	case 2:
	case 3:
		return errMut
	}

	return nil
}

// applyModel applies the mutation to a model value.
func (as *actorState) applyModel(old *model.Res) *model.Res {
	n := old.Clone()

	switch as.a.K {
	case "uwc", "modify":
		switch as.a.Mut {
		case 0:
			n.Val += as.token()
		case 1:
			if n.Labels == nil {
				n.Labels = map[string]string{}
			}

			n.Labels[as.label()] = "1"
		}
	case "addfin":
		if !slices.Contains(n.Fins, hres.Finalizers[as.a.Fin]) {
			n.Fins = append(n.Fins, hres.Finalizers[as.a.Fin])
		}
	case "remfin":
		n.Fins = slices.DeleteFunc(n.Fins, func(f string) bool { return f == hres.Finalizers[as.a.Fin] })
	case "teardown", "tp-phase":
		n.Phase = 1
	}

	return n
}

// Run executes a plan inside a bubble.
func Run(p Plan) (v hk.Verdict) {
	synctest.Test(hk.T(), func(*testing.T) { v = runBubble(p) })

	return v
}

//nolint:gocyclo,gocognit,cyclop,maintidx
func runBubble(p Plan) (v hk.Verdict) {
	root, cancelRoot := context.WithCancel(context.Background())
	inner := sim.NewNamespaced()
	s := sim.NewSched(inner)

	// initial state
	for i, ir := range p.Res {
		if !ir.Exists {
			continue
		}

		r := hres.New("n1", "TA", keyIDs[i], "init")
		r.Metadata().SetPhase(resource.Phase(ir.Phase))

		for x := 0; x < ir.Extra; x++ {
			r.Metadata().Finalizers().Add(fmt.Sprintf("x%d", x))
		}

		for _, f := range ir.Fins {
			r.Metadata().Finalizers().Add(hres.Finalizers[f])
		}

		if err := inner.Create(root, r, state.WithCreateOwner(hres.Owners[ir.Owner])); err != nil {
			v.Failf("harness: setup create: %v", err)

			cancelRoot()

			return v
		}

		s.Cur[model.Key{NS: "n1", Typ: "TA", ID: keyIDs[i]}] = model.FromResource(r)
	}

	initial := map[model.Key]*model.Res{}
	for k, r := range s.Cur {
		initial[k] = r.Clone()
	}

	actors := make([]*actorState, len(p.Actors))

	for i, a := range p.Actors {
		as := &actorState{a: a, idx: i, name: "a" + strconv.Itoa(i), key: model.Key{NS: "n1", Typ: "TA", ID: keyIDs[a.Key%len(p.Res)]}}
		actors[i] = as

		if a.Owner < 3 {
			as.owner = hres.Owners[a.Owner]
		} else if ir := p.Res[a.Key%len(p.Res)]; ir.Exists {
			as.owner = hres.Owners[ir.Owner]
		}

		var uopts []state.UpdateOption

		uopts = append(uopts, state.WithUpdateOwner(as.owner))

		switch a.Phase {
		case 0:
			as.exp = new(0)
		case 1:
			uopts = append(uopts, state.WithExpectedPhaseAny())
		case 2:
			uopts = append(uopts, state.WithExpectedPhase(resource.PhaseRunning))
			as.exp = new(0)
		case 3:
			uopts = append(uopts, state.WithExpectedPhase(resource.PhaseTearingDown))
			as.exp = new(1)
		}

		px := s.Proxy(as.name)
		st := state.WrapCore(px)
		ptr := resource.NewMetadata(as.key.NS, as.key.Typ, as.key.ID, resource.VersionUndefined)
		ctx := root

		go func() {
			defer func() { as.done = true }()

			switch a.K {
			case "uwc":
				switch a.Via {
				case "safe":
					as.ret, as.err = safe.StateUpdateWithConflicts(ctx, st, ptr, func(r *hres.R) error { return as.mutate(r) }, uopts...)
					if as.err != nil {
						as.ret = nil
					}
				default:
					as.ret, as.err = st.UpdateWithConflicts(ctx, ptr, as.mutate, uopts...)
				}
			case "modify":
				empty := hres.New(as.key.NS, as.key.Typ, as.key.ID, "new")

				switch a.Via {
				case "owned":
					// owned.State: owner fixed, expected phase any unless given
					var mo []owned.ModifyOption

					switch a.Phase {
					case 0, 1:
						as.exp = nil
					case 2:
						mo = append(mo, owned.WithExpectedPhase(resource.PhaseRunning))
					case 3:
						mo = append(mo, owned.WithExpectedPhase(resource.PhaseTearingDown))
					}

					as.ret, as.err = owned.New(st, as.owner).ModifyWithResult(ctx, empty, as.mutate, mo...)
				case "safe":
					if a.Phase == 0 {
						// Modify's own default is running
						as.exp = new(0)
					}

					as.ret, as.err = safe.StateModifyWithResult(ctx, st, empty, func(r *hres.R) error { return as.mutate(r) }, uopts...)
					if as.err != nil {
						as.ret = nil
					}
				default:
					as.ret, as.err = st.ModifyWithResult(ctx, empty, as.mutate, uopts...)
				}
			case "addfin":
				as.exp = nil

				if a.Via == "owned" {
					as.err = owned.New(st, as.owner).AddFinalizer(ctx, ptr, hres.Finalizers[a.Fin])
				} else {
					as.err = st.AddFinalizer(ctx, ptr, hres.Finalizers[a.Fin])
				}
			case "remfin":
				as.exp = nil

				if a.Via == "owned" {
					as.err = owned.New(st, as.owner).RemoveFinalizer(ctx, ptr, hres.Finalizers[a.Fin])
				} else {
					as.err = st.RemoveFinalizer(ctx, ptr, hres.Finalizers[a.Fin])
				}
			case "teardown":
				as.exp = nil

				if a.Via == "owned" {
					as.ready, as.err = owned.New(st, as.owner).Teardown(ctx, ptr)
				} else {
					as.ready, as.err = st.Teardown(ctx, ptr, state.WithTeardownOwner(as.owner))
				}
			case "tp-recreate":
				r, err := px.Get(ctx, ptr)
				if err == nil && len(*r.Metadata().Finalizers()) == 0 {
					if px.Destroy(ctx, ptr, state.WithDestroyOwner(r.Metadata().Owner())) == nil {
						_ = px.Create(ctx, hres.New(as.key.NS, as.key.Typ, as.key.ID, "re"), state.WithCreateOwner(as.owner))
					}
				}
			case "tp-create":
				_ = px.Create(ctx, hres.New(as.key.NS, as.key.Typ, as.key.ID, "tp"), state.WithCreateOwner(as.owner))
			case "tp-destroy":
				r, err := px.Get(ctx, ptr)
				if err == nil {
					_ = px.Destroy(ctx, ptr, state.WithDestroyOwner(r.Metadata().Owner()))
				}
			case "tp-phase":
				r, err := px.Get(ctx, ptr)
				if err == nil {
					r.Metadata().SetPhase(resource.PhaseTearingDown)
					_ = px.Update(ctx, r, state.WithUpdateOwner(r.Metadata().Owner()), state.WithExpectedPhaseAny())
				}
			}
		}()
	}

	const maxSteps = 800

	exhausted := false
	step := 0

	for ; ; step++ {
		synctest.Wait()

		gates := s.Enabled()
		if len(gates) == 0 {
			break
		}

		if step >= maxSteps {
			exhausted = true

			break
		}

		c := 0
		if step < len(p.Choices) {
			c = p.Choices[step]
		}

		s.Release(gates[c%len(gates)])
	}

	commits, calls, _ := s.Snapshot()

	// ABA across incarnations (outside the quantifier): recognise commits that are a helper's mutation applied to a
	// same-version value of an earlier incarnation of the key, and leave such keys out of the value oracles
	abaKeys := map[model.Key]bool{}
	{
		commitActor := map[int]*actorState{}

		for _, c := range calls {
			if c.CommitIdx >= 0 {
				for _, as := range actors {
					if as.name == c.Actor {
						commitActor[c.CommitIdx] = as
					}
				}
			}
		}

		incNow := map[model.Key]int{}
		incOf := make([]int, len(commits))

		for k, r := range initial {
			if r != nil {
				incNow[k] = 1
			}
		}

		for i, c := range commits {
			if c.Kind == model.Created {
				incNow[c.New.Key]++
			}

			incOf[i] = incNow[c.New.Key]

			as := commitActor[i]
			if c.Kind != model.Updated || c.Old == nil || as == nil || (strings.HasPrefix(as.a.K, "tp-") && as.a.K != "tp-phase") {
				continue
			}

			want := as.applyModel(c.Old)
			want.Ver = c.Old.Ver + 1

			if model.EqualValue(want, c.New) {
				continue
			}

			for j := 0; j < i; j++ {
				cj := commits[j]
				if cj.New.Key != c.New.Key || cj.Kind == model.Destroyed || cj.New.Ver != c.Old.Ver || incOf[j] == incOf[i] {
					continue
				}

				w2 := as.applyModel(cj.New)
				w2.Ver = c.Old.Ver + 1

				if model.EqualValue(w2, c.New) {
					abaKeys[c.New.Key] = true
				}
			}

			if r := initial[c.New.Key]; r != nil && incOf[i] > 1 && r.Ver == c.Old.Ver {
				w2 := as.applyModel(r)
				w2.Ver = c.Old.Ver + 1

				if model.EqualValue(w2, c.New) {
					abaKeys[c.New.Key] = true
				}
			}
		}

		if len(abaKeys) > 0 {
			v.Label("aba-across-incarnations-tolerated")
		}

		if len(incNow) > 0 {
			for _, n := range incNow {
				if n > 1 {
					v.Label("key-re-created")
				}
			}
		}
	}

	// global log invariants: version +1 per update, values only grow (all generated mutators append)
	for i, c := range commits {
		if c.Kind != model.Updated || abaKeys[c.New.Key] {
			continue
		}

		if c.Old == nil {
			v.Failf("commit #%d updates %s which the log says did not exist", i, c.New.Key)

			continue
		}

		if c.New.Ver != c.Old.Ver+1 {
			v.Failf("commit #%d: version went %d -> %d", i, c.Old.Ver, c.New.Ver)
		}

		if !strings.HasPrefix(c.New.Val, c.Old.Val) {
			v.Failf("commit #%d lost an earlier mutation: value %q -> %q", i, c.Old.Val, c.New.Val)
		}

		for k, val := range c.Old.Labels {
			if c.New.Labels[k] != val {
				v.Failf("commit #%d lost label %s set by an earlier successful call", i, k)
			}
		}
	}

	conflictSeen := false

	for _, as := range actors {
		if strings.HasPrefix(as.a.K, "tp-") || abaKeys[as.key] {
			continue
		}

		var (
			mine      []sim.Call
			myCommits []int
			updates   int
			first     = -1
			last      = -1
		)

		for _, c := range calls {
			if c.Actor != as.name {
				continue
			}

			mine = append(mine, c)

			if first < 0 {
				first = c.At
			}

			last = c.At
			if c.CommitIdx >= 0 {
				myCommits = append(myCommits, c.CommitIdx)
				last = c.CommitIdx + 1
			}

			if c.Op == "Update" {
				updates++

				if c.Class == model.VersionConflict {
					conflictSeen = true

					v.Label("retry:" + as.a.K)
				}
			}
		}

		// retry bound: each retry needs a foreign commit between its Get and Update
		foreign := 0

		for i, c := range commits {
			if i >= first && c.New.Key == as.key && !slices.Contains(myCommits, i) {
				foreign++
			}
		}

		if updates > foreign+1 {
			v.Failf("%s (%s) issued %d Update attempts but only %d foreign commits happened during its lifetime: it retries something that is not a version conflict", as.name, as.a.K, updates, foreign)
		}

		if !as.done {
			if !exhausted {
				v.Failf("%s (%s) never returned although no step is enabled", as.name, as.a.K)
			}

			continue
		}

		// token / label presence in any committed value
		tokenSeen, tokenCount := false, 0

		for _, c := range commits {
			if c.Kind == model.Destroyed {
				continue
			}

			if n := strings.Count(c.New.Val, as.token()+"|") + btoi(strings.HasSuffix(c.New.Val, as.token())); n > 0 {
				tokenSeen = true

				if n > tokenCount {
					tokenCount = n
				}
			}

			if _, ok := c.New.Labels[as.label()]; ok {
				tokenSeen = true
			}
		}

		if tokenCount > 1 {
			v.Failf("mutation of %s applied %d times in one value", as.name, tokenCount)
		}

		cls := model.Classify(as.err)

		if as.err != nil {
			if len(myCommits) > 0 {
				v.Failf("%s (%s via %s) returned error %v but owns commit(s) %v", as.name, as.a.K, as.a.Via, as.err, myCommits)
			}

			if tokenSeen {
				v.Failf("%s (%s) returned error %v but its mutation is visible in a committed value", as.name, as.a.K, as.err)
			}

			// allowed classes
			switch {
			case errors.Is(as.err, errMut):
				v.Label("mutator-error")
			case cls == model.NotFound, cls == model.OwnerConflict, cls == model.PhaseConflict:
				v.Label("err:" + cls.String())

				// the reported reason must have been true at some moment of the call (as if executed one at a time)
				if first >= 0 {
					explained := false
					cur := replay(initial, commits, first)

					for i := first; ; i++ {
						r := cur[as.key]

						switch cls {
						case model.NotFound:
							explained = explained || r == nil
						case model.OwnerConflict:
							explained = explained || (r != nil && r.Owner != as.owner)
						case model.PhaseConflict:
							// finalizer changes accept any phase; the other helpers report a phase conflict when their
							// expected phase (default: running) does not hold
							switch {
							case as.a.K == "addfin" || as.a.K == "remfin":
							case as.exp != nil:
								explained = explained || (r != nil && r.Phase != *as.exp)
							default:
								explained = explained || (r != nil && r.Phase != 0)
							}
						}

						if i >= last || i >= len(commits) {
							break
						}

						applyCommit(cur, commits[i])
					}

					if !explained {
						v.Failf("%s (%s via %s) returned %v, but at no moment of the call was that the case for %s (owner option %q): no one-at-a-time order explains the error", as.name, as.a.K, as.a.Via, as.err, as.key, as.owner)
					}
				}
			case cls == model.VersionConflict && as.a.K == "modify":
				// plain conflict: only the create path of Modify may report it (already exists)
				createTried := false

				for _, c := range mine {
					if c.Op == "Create" && c.Err != nil {
						createTried = true
					}
				}

				if !createTried {
					v.Failf("%s (modify) returned a plain conflict %v without a failed Create", as.name, as.err)
				}

				v.Label("err:already-exists")
			default:
				v.Failf("%s (%s via %s) returned an error outside the listed classes: %v", as.name, as.a.K, as.a.Via, as.err)
			}
		} else {
			if len(myCommits) > 1 {
				v.Failf("%s (%s) reported success and owns %d commits %v: mutation applied more than once", as.name, as.a.K, len(myCommits), myCommits)
			}

			if len(myCommits) == 1 {
				c := commits[myCommits[0]]

				switch c.Kind {
				case model.Updated:
					want := as.applyModel(c.Old)
					want.Ver = c.Old.Ver + 1

					if !model.EqualValue(want, c.New) {
						v.Failf("%s (%s): commit #%d is not its mutation applied to the immediately preceding value: old %s new %s want %s", as.name, as.a.K, myCommits[0], c.Old, c.New, want)
					}

					// the value it was applied to satisfied the caller's preconditions (a conflict met on a retry is still a conflict)
					if (as.a.K == "uwc" || as.a.K == "modify") && as.exp != nil && c.Old.Phase != *as.exp {
						v.Failf("%s (%s via %s): expected phase %d, yet its mutation was committed (#%d) on top of %s: a phase conflict was retried into success", as.name, as.a.K, as.a.Via, *as.exp, myCommits[0], c.Old)
					}

					if (as.a.K == "uwc" || as.a.K == "modify" || as.a.K == "teardown") && c.Old.Owner != as.owner {
						v.Failf("%s (%s via %s): acts as owner %q, yet its mutation was committed (#%d) on top of %s", as.name, as.a.K, as.a.Via, as.owner, myCommits[0], c.Old)
					}
				case model.Created:
					if as.a.K != "modify" {
						v.Failf("%s (%s) created a resource", as.name, as.a.K)
					} else {
						base := &model.Res{Key: as.key, Val: "new"}
						want := as.applyModel(base)
						want.Ver = 1
						want.Owner = as.owner

						if !model.EqualValue(want, c.New) {
							v.Failf("%s (modify/create): created %s, want %s", as.name, c.New, want)
						}
					}
				}

				if as.ret != nil {
					if d := model.Diff(as.ret, c.New); d != "" {
						v.Failf("%s (%s): returned object differs from its commit: %s", as.name, as.a.K, d)
					}
				}
			}

			// Teardown's answer ("ready to be destroyed") reflects the value it was applied to: the value it committed,
			// or - when the resource was tearing down already - a value that was current during the call
			if as.a.K == "teardown" {
				if len(myCommits) == 1 {
					if c := commits[myCommits[0]]; as.ready != (len(c.New.Fins) == 0) {
						v.Failf("%s (teardown via %s) returned ready=%v but the value it committed (#%d) is %s", as.name, as.a.Via, as.ready, myCommits[0], c.New)
					}

					v.Label("teardown-commit-ready-checked")
				} else if first >= 0 {
					cur := replay(initial, commits, first)
					explained := false

					for i := first; ; i++ {
						if r := cur[as.key]; r != nil && r.Phase == 1 && as.ready == (len(r.Fins) == 0) {
							explained = true
						}

						if i >= last || i >= len(commits) {
							break
						}

						applyCommit(cur, commits[i])
					}

					if !explained {
						v.Failf("%s (teardown via %s) returned ready=%v without a commit, but no tearing-down value current during the call has that finalizer state", as.name, as.a.Via, as.ready)
					}
				}
			}

			if len(myCommits) == 0 && (as.a.K == "uwc" || as.a.K == "modify") && as.a.Mut < 2 {
				v.Failf("%s (%s) reported success with a changing mutator but owns no commit", as.name, as.a.K)
			}

			if len(myCommits) == 0 {
				v.Label("noop-success")
			}
		}

		// owner / phase never matched during the lifetime
		if first >= 0 && (as.a.K == "uwc" || as.a.K == "modify" || as.a.K == "teardown") {
			ownerMatched, phaseHeld, existed := false, as.exp == nil, false
			cur := replay(initial, commits, first)

			for i := first; ; i++ {
				if r := cur[as.key]; r != nil {
					existed = true

					if r.Owner == as.owner {
						ownerMatched = true
					}

					if as.exp != nil && r.Phase == *as.exp {
						phaseHeld = true
					}
				}

				if i >= last || i >= len(commits) {
					break
				}

				applyCommit(cur, commits[i])
			}

			createdByMe := len(myCommits) == 1 && commits[myCommits[0]].Kind == model.Created

			if existed && !ownerMatched && !createdByMe {
				if len(myCommits) > 0 {
					v.Failf("%s (%s): owner option %q never matched but it committed", as.name, as.a.K, as.owner)
				}

				if as.err == nil && as.a.Mut < 2 && as.a.K != "teardown" {
					v.Failf("%s (%s): owner option %q never matched the stored owner, mutator changes the value, yet it reported success", as.name, as.a.K, as.owner)
				}

				v.Label("owner-never-matched")
			}

			if existed && !phaseHeld && !createdByMe {
				if len(myCommits) > 0 {
					v.Failf("%s (%s): expected phase %d never held but it committed", as.name, as.a.K, *as.exp)
				}

				if as.err == nil {
					v.Failf("%s (%s via %s): expected phase %d never held during the call, yet it reported success (mut=%d)", as.name, as.a.K, as.a.Via, *as.exp, as.a.Mut)
				} else if cls != model.PhaseConflict && cls != model.NotFound && !(cls == model.OwnerConflict && !ownerMatched) && !errors.Is(as.err, errMut) &&
					!(cls == model.VersionConflict && as.a.K == "modify") {
					v.Failf("%s (%s): expected phase never held; reported %v instead of a phase conflict", as.name, as.a.K, as.err)
				}

				v.Label("phase-never-held")
			}
		}
	}

	if exhausted {
		v.Inconclusive = true

		v.Label("step-budget-exhausted")
	}

	if conflictSeen {
		v.NonTrivial = true
	}

	// final value contains every successful token exactly once (when the incarnation survived)
	v.Outcome = fmt.Sprintf("%d commits, %d steps, final=%v", len(commits), step, finalVals(s.Cur))

	cancelRoot()
	s.Shutdown()
	synctest.Wait()

	return v
}

func btoi(b bool) int {
	if b {
		return 1
	}

	return 0
}

func finalVals(m map[model.Key]*model.Res) []string {
	var out []string
	for k, r := range m {
		out = append(out, k.ID+"="+r.Val)
	}

	sort.Strings(out)

	return out
}

func replay(initial map[model.Key]*model.Res, commits []model.Commit, n int) map[model.Key]*model.Res {
	m := maps.Clone(initial)
	for _, c := range commits[:n] {
		applyCommit(m, c)
	}

	return m
}

func applyCommit(m map[model.Key]*model.Res, c model.Commit) {
	if c.Kind == model.Destroyed {
		delete(m, c.New.Key)
	} else {
		m[c.New.Key] = c.New
	}
}

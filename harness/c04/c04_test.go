package c04

import (
	"testing"

	"verifharness/hk"
)

func TestMain(m *testing.M) { hk.Main(m, "C04") }

func TestS2(t *testing.T) {
	hk.RunSub(t, hk.Sub[Plan]{Name: "s2/helpers", Quick: 10000, Thorough: 60000, Gen: Gen, Run: Run, Journal: true})
}

package hres

import (
	"github.com/cosi-project/runtime/pkg/resource"
	"github.com/cosi-project/runtime/pkg/resource/meta"
	"github.com/cosi-project/runtime/pkg/resource/typed"
)

// VSpec is the spec of the typed harness resources used with the generic controllers.
type VSpec struct {
	Value string `yaml:"value"`
}

// DeepCopy implements typed.DeepCopyable.
func (s VSpec) DeepCopy() VSpec { return s }

// Type names of the typed resources.
const (
	TypeGA = "GA" // input of the generic controllers
	TypeGB = "GB" // output of the generic controllers
	TypeGC = "GC" // ownerless dependants removed by the cleanup controller
	TypeGD = "GD" // a second kind of dependants (cleanup controllers with combined handlers)
)

// AExt / BExt / CExt carry the resource definitions.
type (
	AExt struct{}
	BExt struct{}
	CExt struct{}
	DExt struct{}
)

// ResourceDefinition implements typed.Extension.
func (DExt) ResourceDefinition() meta.ResourceDefinitionSpec {
	return meta.ResourceDefinitionSpec{Type: TypeGD, DefaultNamespace: "n1"}
}

// ResourceDefinition implements typed.Extension.
func (AExt) ResourceDefinition() meta.ResourceDefinitionSpec {
	return meta.ResourceDefinitionSpec{Type: TypeGA, DefaultNamespace: "n1"}
}

// ResourceDefinition implements typed.Extension.
func (BExt) ResourceDefinition() meta.ResourceDefinitionSpec {
	return meta.ResourceDefinitionSpec{Type: TypeGB, DefaultNamespace: "n1"}
}

// ResourceDefinition implements typed.Extension.
func (CExt) ResourceDefinition() meta.ResourceDefinitionSpec {
	return meta.ResourceDefinitionSpec{Type: TypeGC, DefaultNamespace: "n1"}
}

// A, B, C are the typed resources.
type (
	A = typed.Resource[VSpec, AExt]
	B = typed.Resource[VSpec, BExt]
	C = typed.Resource[VSpec, CExt]
	D = typed.Resource[VSpec, DExt]
)

// NewD creates a dependant resource of the second kind.
func NewD(id, val string) *D {
	return typed.NewResource[VSpec, DExt](resource.NewMetadata("n1", TypeGD, id, resource.VersionUndefined), VSpec{Value: val})
}

// NewA creates an input resource.
func NewA(id, val string) *A {
	return typed.NewResource[VSpec, AExt](resource.NewMetadata("n1", TypeGA, id, resource.VersionUndefined), VSpec{Value: val})
}

// NewB creates an output resource.
func NewB(id, val string) *B {
	return typed.NewResource[VSpec, BExt](resource.NewMetadata("n1", TypeGB, id, resource.VersionUndefined), VSpec{Value: val})
}

// NewC creates a dependant resource.
func NewC(id, val string) *C {
	return typed.NewResource[VSpec, CExt](resource.NewMetadata("n1", TypeGC, id, resource.VersionUndefined), VSpec{Value: val})
}

type vspecHolder interface{ TypedSpec() *VSpec }

// SetTypedValue sets the value of a typed harness resource.
func SetTypedValue(r resource.Resource, v string) {
	if h, ok := r.(vspecHolder); ok {
		h.TypedSpec().Value = v
	}
}

package hres

import (
	"github.com/cosi-project/runtime/api/v1alpha1"
	"github.com/cosi-project/runtime/pkg/resource"
	"github.com/cosi-project/runtime/pkg/resource/meta"
	"github.com/cosi-project/runtime/pkg/resource/protobuf"
	"github.com/cosi-project/runtime/pkg/resource/typed"
)

// TypeTP is a resource type whose spec is a generated protobuf message behind protobuf.ResourceSpec (the library's
// wrapper for message-typed specs); the harness value is the message's key field, an empty value is an empty message.
const TypeTP = "TP"

// PExt carries the resource definition of TP.
type PExt struct{}

// ResourceDefinition implements typed.Extension.
func (PExt) ResourceDefinition() meta.ResourceDefinitionSpec {
	return meta.ResourceDefinitionSpec{Type: TypeTP, DefaultNamespace: "n1"}
}

// PSpec / P: the message-typed spec and resource.
type (
	PSpec = protobuf.ResourceSpec[v1alpha1.LabelTerm, *v1alpha1.LabelTerm]
	P     = typed.Resource[PSpec, PExt]
)

// NewP creates a TP resource.
func NewP(ns, id, val string) *P {
	msg := &v1alpha1.LabelTerm{}
	if val != "" {
		msg.Key = val
	}

	return typed.NewResource[PSpec, PExt](resource.NewMetadata(ns, TypeTP, id, resource.VersionUndefined), protobuf.NewResourceSpec(msg))
}

// NewPMD creates a TP resource around the given metadata.
func NewPMD(md resource.Metadata, val string) *P {
	msg := &v1alpha1.LabelTerm{}
	if val != "" {
		msg.Key = val
	}

	return typed.NewResource[PSpec, PExt](md, protobuf.NewResourceSpec(msg))
}

func init() {
	if err := protobuf.RegisterResource(TypeTP, &P{}); err != nil {
		panic(err)
	}
}

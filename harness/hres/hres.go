// Package hres defines the resource type used by the harness: a typed resource with a single
// string value, registered with the protobuf registry under the harness type names so that it
// survives the gRPC and persistent-store paths.
package hres

import (
	"fmt"
	"sort"

	"github.com/cosi-project/runtime/pkg/resource"
	"github.com/cosi-project/runtime/pkg/resource/protobuf"
)

// Types and namespaces of the small shared domain.
var (
	Types      = []string{"TA", "TB", "TC"}
	Namespaces = []string{"n1", "n2"}
	IDs        = []string{"a", "b", "c", "d"}
	Owners     = []string{"", "o1", "o2"}
	Finalizers = []string{"f1", "f2", "f3"}
	LabelKeys  = []string{"k1", "k2", "k3"}
)

// Spec is the spec of R.
type Spec struct {
	Value string `yaml:"value"`
}

// MarshalProto implements protobuf.ProtoMarshaler.
func (s Spec) MarshalProto() ([]byte, error) { return []byte(s.Value), nil }

// R is the harness resource.
type R struct {
	md   resource.Metadata
	spec Spec
}

// New creates a resource with undefined version.
func New(ns, typ, id, val string) *R {
	return &R{md: resource.NewMetadata(ns, typ, id, resource.VersionUndefined), spec: Spec{Value: val}}
}

// NewMD creates a resource from metadata.
func NewMD(md resource.Metadata, val string) *R {
	return &R{md: md, spec: Spec{Value: val}}
}

// Metadata implements resource.Resource.
func (r *R) Metadata() *resource.Metadata { return &r.md }

// Spec implements resource.Resource.
func (r *R) Spec() any { return r.spec }

// Value returns the value.
func (r *R) Value() string { return r.spec.Value }

// SetValue sets the value.
func (r *R) SetValue(v string) { r.spec.Value = v }

// DeepCopy implements resource.Resource.
func (r *R) DeepCopy() resource.Resource { return &R{md: r.md, spec: r.spec} } //nolint:ireturn

// UnmarshalProto implements protobuf.ResourceUnmarshaler.
func (r *R) UnmarshalProto(md *resource.Metadata, b []byte) error {
	r.md = *md
	r.spec.Value = string(b)

	return nil
}

func (r *R) String() string {
	return Describe(r)
}

func init() {
	for _, t := range Types {
		if err := protobuf.RegisterResource(t, &R{}); err != nil {
			panic(err)
		}
	}
}

// Value extracts the harness value of any resource (also protobuf.Resource-wrapped ones).
func Value(r resource.Resource) string {
	switch x := r.(type) {
	case *R:
		return x.spec.Value
	case nil:
		return "<nil>"
	case vspecHolder:
		return x.TypedSpec().Value
	case *P:
		return x.TypedSpec().Value.GetKey()
	}

	if resource.IsTombstone(r) {
		return "<tombstone>"
	}

	if pr, ok := r.(*protobuf.Resource); ok && pr.Metadata().Type() == TypeTP {
		pp := NewP("", "", "")
		if err := pr.Unmarshal(pp); err == nil {
			return pp.TypedSpec().Value.GetKey()
		}
	}

	if pr, ok := r.(*protobuf.Resource); ok {
		rr := &R{}
		if err := pr.Unmarshal(rr); err == nil {
			return rr.spec.Value
		}
	}

	return fmt.Sprintf("<%T>", r)
}

// Snap is a plain-data snapshot of a resource used for comparisons and messages.
type Snap struct {
	NS, Typ, ID string
	Ver         string
	Owner       string
	Phase       string
	Fins        []string
	Labels      map[string]string
	Annos       map[string]string
	Val         string
	Created     int64
}

// SnapOf takes a snapshot.
func SnapOf(r resource.Resource) Snap {
	md := r.Metadata()
	s := Snap{
		NS: md.Namespace(), Typ: md.Type(), ID: md.ID(), Ver: md.Version().String(), Owner: md.Owner(),
		Phase: md.Phase().String(), Val: Value(r), Created: md.Created().UnixNano(),
	}

	s.Fins = append(s.Fins, *md.Finalizers()...)
	sort.Strings(s.Fins)

	if raw := md.Labels().Raw(); len(raw) > 0 {
		s.Labels = map[string]string{}
		for k, v := range raw {
			s.Labels[k] = v
		}
	}

	if raw := md.Annotations().Raw(); len(raw) > 0 {
		s.Annos = map[string]string{}
		for k, v := range raw {
			s.Annos[k] = v
		}
	}

	return s
}

// Describe renders a resource.
func Describe(r resource.Resource) string {
	if r == nil {
		return "<nil>"
	}

	s := SnapOf(r)

	return fmt.Sprintf("%s/%s/%s@%s owner=%q phase=%s fins=%v labels=%v val=%q", s.NS, s.Typ, s.ID, s.Ver, s.Owner, s.Phase, s.Fins, s.Labels, s.Val)
}

//go:debug randseednop=0
package c07

import (
	"testing"

	"verifharness/gsim"
	"verifharness/hk"
)

func TestMain(m *testing.M) { hk.Main(m, "C07") }

func TestS3(t *testing.T) {
	hk.RunSub(t, hk.Sub[gsim.Plan]{Name: "s3/finalizer-order", Quick: 4000, Thorough: 24000, Gen: gsim.Gen(FinCtrls()), Run: Run, Journal: true})
}

// Package c07 checks C07: finalizer ordering safety in controller-driven lifecycles (a monitor over
// every prefix of the commit log of the C06 simulations, restricted to configurations with input finalizers).
package c07

import (
	"fmt"
	"slices"

	"verifharness/gsim"
	"verifharness/hk"
	"verifharness/hres"
	"verifharness/model"
	"verifharness/sim"
)

// FinCtrls are the configurations that use input finalizers.
func FinCtrls() []string {
	c := []string{"transform-fin", "qtransform", "qtransform"}

	if !hk.KnownOpen("c07-qtransform-ignored-teardown-output-without-finalizer") {
		c = append(c, "qtransform-until", "qtransform-while")
	}

	return c
}

// Run executes a plan and monitors the log.
func Run(p gsim.Plan) (v hk.Verdict) {
	r := gsim.Run(p)

	if r.Harness != "" {
		v.Failf("harness: %s", r.Harness)

		return v
	}

	ctx := fmt.Sprintf("[%s cleanup=%v conc=%d transform=%dms errs=%v faults=%v]", p.Ctrl, p.Cleanup, p.Conc, p.TransformMs, p.ErrPattern, p.StoreFaults)
	cur := map[model.Key]*model.Res{}
	handlerIdx := 0
	createdAt := map[model.Key]int{}
	tainted := map[string]bool{} // ids whose input was overwritten across incarnations (ABA)

	for i, e := range r.Log {
		c := e.Commit
		k := c.New.Key

		// ABA across incarnations: inputs restart at version 1 when re-created, so a controller's finalizer update that
		// was read from the previous incarnation can land on the new one and overwrite its content (the same
		// observation as for C04; Destroy + re-Create by the owner while a write is in flight is outside the statement).
		// Controllers never change an input's value or phase, so such a commit is recognisable; the ordering oracles do
		// not apply to it and the state simply continues from it.
		if k.Typ == hres.TypeGA && c.Kind == model.Updated && e.Via == "rt" && c.Old != nil && (c.New.Val != c.Old.Val || c.New.Phase != c.Old.Phase) {
			v.Label("aba-overwrite-of-recreated-input-tolerated")

			// the overwrite may have wiped finalizers other parties rely on: everything that follows for this id is a
			// consequence of it, not of the controllers' ordering logic
			tainted[k.ID] = true
			cur[k] = c.New

			continue
		}

		if tainted[k.ID] || (k.Typ == hres.TypeGC || k.Typ == hres.TypeGD) && tainted[c.New.Labels["parent"]] {
			if c.Kind == model.Created {
				createdAt[k] = i
			}

			if c.Kind == model.Destroyed {
				delete(cur, k)
			} else {
				cur[k] = c.New
			}

			continue
		}

		switch {
		case k.Typ == hres.TypeGB && c.Kind == model.Created && e.Via == "rt":
			// (i) the source input exists and carries the controller's finalizer
			in := cur[gsim.InKey(k.ID)]
			if in == nil || !slices.Contains(in.Fins, gsim.CtrlName) {
				v.Failf("%s (i) commit #%d creates output %s while its input is %s (the controller's finalizer must be on the input first); log: %s", ctx, i, c.New, in, head(r.Log, i))
			}
		case k.Typ == hres.TypeGA && c.Kind == model.Updated && slices.Contains(c.Old.Fins, gsim.CtrlName) && !slices.Contains(c.New.Fins, gsim.CtrlName):
			// (ii) the controller's finalizer leaves an input only after the output is gone
			if out := cur[gsim.OutKey(k.ID)]; out != nil {
				v.Failf("%s (ii) commit #%d removes the controller's finalizer from input %s while output %s still exists; log: %s", ctx, i, c.New, out, head(r.Log, i))
			}
		case k.Typ == hres.TypeGB && c.Kind == model.Destroyed:
			// (iii) outputs are destroyed only after being marked tearing down, with no finalizers
			if c.New.Owner == gsim.CtrlName && (c.New.Phase != 1 || len(c.New.Fins) > 0) {
				v.Failf("%s (iii) commit #%d destroys output %s which is not (tearing down, no finalizers); log: %s", ctx, i, c.New, head(r.Log, i))
			}
		case k.Typ == hres.TypeGA && c.Kind == model.Destroyed:
			// (iv) an input never disappears while an output derived from it exists
			if out := cur[gsim.OutKey(k.ID)]; out != nil && out.Owner == gsim.CtrlName {
				v.Failf("%s (iv) commit #%d destroys input %s while output %s derived from it still exists; log: %s", ctx, i, c.New, out, head(r.Log, i))
			}
		}

		// (v) cleanup controller: its finalizer leaves a torn-down input only after the removal handler returned nil
		if p.Cleanup && k.Typ == hres.TypeGA && c.Kind == model.Updated && slices.Contains(c.Old.Fins, gsim.CleanupName) && !slices.Contains(c.New.Fins, gsim.CleanupName) {
			ok := false

			for handlerIdx < len(r.Handler) && r.Handler[handlerIdx].LogLen <= i {
				h := r.Handler[handlerIdx]
				if h.ID == k.ID {
					ok = h.Nil
				}

				handlerIdx++
			}

			// the last handler call for this id at or before this commit must have returned nil
			last := -1

			for j, h := range r.Handler {
				if h.ID == k.ID && h.LogLen <= i {
					last = j
				}
			}

			ok = last >= 0 && r.Handler[last].Nil

			if !ok {
				v.Failf("%s (v) commit #%d removes the cleanup finalizer from %s without a preceding successful removal handler (handler calls: %+v); log: %s", ctx, i, c.New, r.Handler, head(r.Log, i))
			}

			// dependants that already existed when the handler reported success must be gone (a dependant created
			// by the external party after the handler ran is a race outside the statement)
			for ck, cr := range cur {
				if (ck.Typ == hres.TypeGC || ck.Typ == hres.TypeGD) && cr.Owner == "" && cr.Labels["parent"] == k.ID && last >= 0 && createdAt[ck] < r.Handler[last].StartLen {
					v.Failf("%s (v) commit #%d removes the cleanup finalizer from %s while dependant %s (created at commit #%d, before the successful handler call started at log length %d) still exists; log: %s",
						ctx, i, c.New, cr, createdAt[ck], r.Handler[last].StartLen, head(r.Log, i))
				}
			}

			v.Label("cleanup-finalizer-released")
		}

		if c.Kind == model.Created {
			createdAt[k] = i
		}

		if c.Kind == model.Destroyed {
			delete(cur, k)
		} else {
			cur[k] = c.New
		}
	}

	// non-triviality: an external teardown/destroy attempt between two of the controller's own writes on the pair
	for _, id := range gsim.IDs {
		firstRT, lastRT := -1, -1

		for i, e := range r.Log {
			if e.Via == "rt" && e.Commit.New.ID == id {
				if firstRT < 0 {
					firstRT = i
				}

				lastRT = i
			}
		}

		for i, e := range r.Log {
			if e.Via == "ext" && e.Commit.New.ID == id && i > firstRT && i < lastRT && (e.Commit.Kind == model.Destroyed || e.Commit.New.Phase == 1) {
				v.NonTrivial = true

				v.Label("external-teardown-between-controller-writes")
			}
		}
	}

	if r.Early {
		v.Failf("%s runtime Run returned early: %s", ctx, r.RunErr)
	}

	v.Outcome = fmt.Sprintf("%s %d commits", p.Ctrl, len(r.Log))

	return v
}

func head(log []sim.LogEntry, i int) string {
	lo := 0
	if i > 30 {
		lo = i - 30
	}

	return sim.DescribeLog(log[lo:i+1], 40)
}

// Package c05 checks C05: no lost wake-ups - every input change reaches every dependent controller.
package c05

import (
	"context"
	"fmt"
	"math/rand"
	"slices"
	"sort"
	"strconv"
	"testing"
	"testing/synctest"
	"time"

	"pgregory.net/rapid"

	"github.com/cosi-project/runtime/pkg/controller"
	"github.com/cosi-project/runtime/pkg/resource"
	"github.com/cosi-project/runtime/pkg/state"

	"verifharness/hk"
	"verifharness/hres"
	"verifharness/model"
	"verifharness/sim"
)

// ProbeSpec describes one probe controller.
type ProbeSpec struct {
	Flavor string       `json:"flavor"` // plain | queue
	RegAt  int          `json:"regat"`  // ms after start; 0 = registered before Run
	Ins    []sim.InSpec `json:"ins"`
	Late   []sim.InSpec `json:"late"`
	LateAt int          `json:"lateat"`
	// LateDrop: indexes into Ins dropped by the same UpdateInputs call that adds Late
	LateDrop []int               `json:"latedrop,omitempty"`
	Conc     int                 `json:"conc"`
	BusyMs   int                 `json:"busyms"`
	Mapper   map[string][]string `json:"mapper"`
}

// ExtOp is an external write.
type ExtOp struct {
	AtMs int    `json:"at"`
	K    string `json:"k"` // create update label addfin remfin teardown destroy
	Typ  int    `json:"typ"`
	ID   int    `json:"id"`
	Arg  int    `json:"arg"`
}

// Plan is a C05 plan.
type Plan struct {
	Probes  []ProbeSpec `json:"probes"`
	Cached  []int       `json:"cached"`
	Pre     []ExtOp     `json:"pre"`
	Script  []ExtOp     `json:"script"`
	Latency []int       `json:"latency"`
	Deliv   []int       `json:"deliv"`
	// DupReg: at DupReg[1] ms somebody tries to register another controller under the name of probe DupReg[0] (same
	// flavour, its initial declarations): the attempt must be refused, and the probe keeps being woken (nil = never)
	DupReg []int `json:"dupreg,omitempty"`
}

var (
	types = hres.Types
	ids   = []string{"a", "b", "c"}
)

func genIn(t *rapid.T, kinds []int, label string) sim.InSpec {
	in := sim.InSpec{
		NS:   "n1",
		Typ:  rapid.SampledFrom(types).Draw(t, label+"typ"),
		Kind: rapid.SampledFrom(kinds).Draw(t, label+"kind"),
	}

	if rapid.IntRange(0, 2).Draw(t, label+"byid") == 0 {
		in.ID = rapid.SampledFrom(ids).Draw(t, label+"id")
	}

	return in
}

func conflicts(ins []sim.InSpec, x sim.InSpec) bool {
	for _, i := range ins {
		if i.NS == x.NS && i.Typ == x.Typ && i.ID == x.ID {
			return true
		}
	}

	return false
}

// muted reports the known-finding shape: a destroy-ready kind-wide input together with a non-destroy-ready
// by-id input on the same (namespace, type).
func muted(ins []sim.InSpec, x sim.InSpec) bool {
	for _, i := range ins {
		if i.NS == x.NS && i.Typ == x.Typ {
			if (i.Kind == controller.InputDestroyReady) != (x.Kind == controller.InputDestroyReady) {
				return true
			}
		}
	}

	return false
}

func GenOps(t *rapid.T, label string, lo, hi, maxMs int) []ExtOp {
	ops := rapid.SliceOfN(rapid.Custom(func(t *rapid.T) ExtOp {
		return ExtOp{
			AtMs: rapid.IntRange(0, maxMs).Draw(t, "at"),
			K:    rapid.SampledFrom([]string{"create", "create", "update", "update", "update", "label", "addfin", "remfin", "teardown", "destroy", "destroy"}).Draw(t, "k"),
			Typ:  rapid.IntRange(0, 2).Draw(t, "typ"),
			ID:   rapid.IntRange(0, 2).Draw(t, "id"),
			Arg:  rapid.IntRange(0, 2).Draw(t, "arg"),
		}
	}), lo, hi).Draw(t, label)

	// bursts: round times to a coarse grid half of the time
	sort.SliceStable(ops, func(i, j int) bool { return ops[i].AtMs < ops[j].AtMs })

	return ops
}

// Gen draws a plan.
func Gen(t *rapid.T) Plan {
	p := Plan{}
	exclude := hk.KnownOpen("c05-destroyready-filter-mutes-other-inputs")

	np := rapid.IntRange(1, 4).Draw(t, "nprobes")
	for i := 0; i < np; i++ {
		ps := ProbeSpec{Flavor: rapid.SampledFrom([]string{"plain", "queue"}).Draw(t, "flavor")}

		if rapid.IntRange(0, 2).Draw(t, "late-reg") == 0 {
			ps.RegAt = rapid.IntRange(1, 2000).Draw(t, "regat")
		}

		ps.BusyMs = rapid.SampledFrom([]int{0, 0, 5, 50, 300, 1000}).Draw(t, "busy")

		switch ps.Flavor {
		case "plain":
			n := rapid.IntRange(1, 3).Draw(t, "nins")
			for j := 0; j < n; j++ {
				in := genIn(t, []int{controller.InputWeak, controller.InputStrong, controller.InputDestroyReady}, "in")
				if !conflicts(ps.Ins, in) && !(exclude && muted(ps.Ins, in)) {
					ps.Ins = append(ps.Ins, in)
				}
			}

			if rapid.IntRange(0, 2).Draw(t, "haslate") == 0 {
				ps.LateAt = rapid.IntRange(1, 3).Draw(t, "lateat")

				for j := 0; j < 2; j++ {
					in := genIn(t, []int{controller.InputWeak, controller.InputStrong, controller.InputDestroyReady}, "late")
					if !conflicts(append(append([]sim.InSpec(nil), ps.Ins...), ps.Late...), in) && !(exclude && muted(append(append([]sim.InSpec(nil), ps.Ins...), ps.Late...), in)) {
						ps.Late = append(ps.Late, in)
					}
				}

				// narrowing: the same call may drop some of the initial inputs; a third of those cases replace a
				// kind-wide input by an input on one ID of that kind
				switch rapid.IntRange(0, 5).Draw(t, "narrow") {
				case 0, 1:
					for idx := range ps.Ins {
						if rapid.Bool().Draw(t, "drop") {
							ps.LateDrop = append(ps.LateDrop, idx)
						}
					}
				case 3:
					// re-declaration: one initial input keeps its namespace / type / id but changes its kind
					if len(ps.Ins) > 0 {
						idx := rapid.IntRange(0, len(ps.Ins)-1).Draw(t, "rekind")
						in := ps.Ins[idx]
						kinds := []int{controller.InputWeak, controller.InputStrong, controller.InputDestroyReady}
						in.Kind = kinds[(slices.Index(kinds, in.Kind)+1+rapid.IntRange(0, 1).Draw(t, "rekind-to"))%3]

						rest := append(append([]sim.InSpec(nil), ps.Ins[:idx]...), ps.Ins[idx+1:]...)
						if !(exclude && muted(append(rest, ps.Late...), in)) {
							ps.Late = append(ps.Late, in)
							ps.LateDrop = append(ps.LateDrop, idx)
						}
					}
				case 2:
					for idx, in := range ps.Ins {
						if in.ID == "" && len(ps.LateDrop) == 0 {
							byID := sim.InSpec{NS: in.NS, Typ: in.Typ, ID: rapid.SampledFrom(ids).Draw(t, "narrowid"), Kind: in.Kind}
							if !conflicts(append(append([]sim.InSpec(nil), ps.Ins...), ps.Late...), byID) {
								ps.Late = append(ps.Late, byID)
								ps.LateDrop = append(ps.LateDrop, idx)
							}
						}
					}
				}
			}
		case "queue":
			ps.Conc = rapid.IntRange(1, 4).Draw(t, "conc")
			prim := sim.InSpec{NS: "n1", Typ: rapid.SampledFrom(types).Draw(t, "ptyp"), Kind: controller.InputQPrimary}

			if rapid.IntRange(0, 3).Draw(t, "pbyid") == 0 {
				prim.ID = rapid.SampledFrom(ids).Draw(t, "pid")
			}

			ps.Ins = append(ps.Ins, prim)
			ps.Mapper = map[string][]string{}
			primIDs := []string{prim.ID}

			// a second primary input on the same type: another id
			if prim.ID != "" && rapid.Bool().Draw(t, "psecond") {
				second := prim
				second.ID = rapid.SampledFrom(ids).Draw(t, "pid2")

				if second.ID != prim.ID {
					ps.Ins = append(ps.Ins, second)
					primIDs = append(primIDs, second.ID)
				}
			}

			n := rapid.IntRange(0, 3).Draw(t, "nmapped")
			for j := 0; j < n; j++ {
				in := genIn(t, []int{controller.InputQMapped, controller.InputQMappedDestroyReady}, "min")
				// (a mapped input may sit on the primary's own type as long as the keys differ: kind-wide next to by-ID,
				// or two different IDs; a change of such a resource concerns both inputs)
				if conflicts(ps.Ins, in) {
					continue
				}

				same := false

				for _, e := range ps.Ins[len(primIDs):] {
					if e.Typ == in.Typ {
						same = true // two mapped inputs of different kinds on one type: qruntime matches by type only
					}
				}

				if same {
					continue
				}

				ps.Ins = append(ps.Ins, in)

				for _, id := range ids {
					targets := rapid.SliceOfNDistinct(rapid.SampledFrom(ids), 0, 3, rapid.ID[string]).Draw(t, "targets")
					if prim.ID != "" {
						// by-id primary: the mapper may only name that id
						var f []string

						for _, x := range targets {
							if slices.Contains(primIDs, x) {
								f = append(f, x)
							}
						}

						targets = f
					}

					ps.Mapper[in.Typ+"/"+id] = targets
				}
			}
		}

		if len(ps.Ins) == 0 {
			ps.Ins = []sim.InSpec{{NS: "n1", Typ: "TA", Kind: controller.InputWeak}}
		}

		p.Probes = append(p.Probes, ps)
	}

	if rapid.IntRange(0, 3).Draw(t, "hasdupreg") == 0 {
		p.DupReg = []int{rapid.IntRange(0, len(p.Probes)-1).Draw(t, "dupreg-probe"), rapid.IntRange(0, 2500).Draw(t, "dupreg-at")}
	}

	p.Cached = rapid.SliceOfNDistinct(rapid.IntRange(0, 2), 0, 2, rapid.ID[int]).Draw(t, "cached")
	p.Pre = GenOps(t, "pre", 0, 6, 0)
	p.Script = GenOps(t, "script", 4, 40, 3000)

	if rapid.Bool().Draw(t, "grid") {
		for i := range p.Script {
			p.Script[i].AtMs -= p.Script[i].AtMs % 500
		}
	}

	// storm template: a burst of writes on distinct keys at one instant, immediately followed (same virtual instant)
	// by a late registration, so that a new watch is established while deliveries are still pending
	if len(p.Probes) >= 2 && rapid.IntRange(0, 2).Draw(t, "storm") == 0 {
		at := rapid.IntRange(100, 2500).Draw(t, "stormat")
		n := rapid.IntRange(4, 9).Draw(t, "stormn")

		for i := 0; i < n; i++ {
			p.Script = append(p.Script, ExtOp{AtMs: at, K: rapid.SampledFrom([]string{"create", "create", "update"}).Draw(t, "stormk"), Typ: i % 3, ID: (i / 3) % 3})
		}

		sort.SliceStable(p.Script, func(i, j int) bool { return p.Script[i].AtMs < p.Script[j].AtMs })

		p.Probes[rapid.IntRange(0, len(p.Probes)-1).Draw(t, "stormprobe")].RegAt = at
	}

	p.Latency = rapid.SliceOfN(rapid.SampledFrom([]int{0, 0, 0, 1, 10, 100}), 1, 6).Draw(t, "latency")
	p.Deliv = rapid.SliceOfN(rapid.SampledFrom([]int{0, 0, 0, 5, 200, 700, -5, -200, -700}), 1, 6).Draw(t, "deliv")

	return p
}

// Run executes the plan in a bubble.
func Run(p Plan) (v hk.Verdict) {
	rand.Seed(int64(len(p.Script))*7919 + int64(len(p.Probes))) //nolint:staticcheck

	synctest.Test(hk.T(), func(*testing.T) { v = runBubble(p) })

	return v
}

func Apply(ctx context.Context, st state.State, op ExtOp, n int) {
	typ, id := types[op.Typ], ids[op.ID]
	ptr := resource.NewMetadata("n1", typ, id, resource.VersionUndefined)

	switch op.K {
	case "create":
		r := hres.New("n1", typ, id, "v"+strconv.Itoa(n))
		_ = st.Create(ctx, r)
	case "update":
		_, _ = st.UpdateWithConflicts(ctx, ptr, func(r resource.Resource) error {
			r.(*hres.R).SetValue("v" + strconv.Itoa(n)) //nolint:forcetypeassert

			return nil
		}, state.WithExpectedPhaseAny())
	case "label":
		_, _ = st.UpdateWithConflicts(ctx, ptr, func(r resource.Resource) error {
			r.Metadata().Labels().Set(hres.LabelKeys[op.Arg], "l"+strconv.Itoa(n))

			return nil
		}, state.WithExpectedPhaseAny())
	case "addfin":
		_ = st.AddFinalizer(ctx, ptr, hres.Finalizers[op.Arg])
	case "remfin":
		_ = st.RemoveFinalizer(ctx, ptr, hres.Finalizers[op.Arg])
	case "teardown":
		_, _ = st.Teardown(ctx, ptr)
	case "destroy":
		_ = st.Destroy(ctx, ptr)
	}
}

func matches(in sim.InSpec, k model.Key) bool {
	return in.NS == k.NS && in.Typ == k.Typ && (in.ID == "" || in.ID == k.ID)
}

func destroyReady(r *model.Res) bool { return r != nil && r.Phase == 1 && len(r.Fins) == 0 }

//nolint:gocyclo,gocognit,cyclop,maintidx
func runBubble(p Plan) (v hk.Verdict) {
	var cached []model.Key
	for _, c := range p.Cached {
		cached = append(cached, model.Key{NS: "n1", Typ: types[c]})
	}

	w, err := sim.NewWorld(sim.WorldOptions{
		Cached: cached,
		RTLatency: func(_ string, n int) time.Duration {
			return time.Duration(p.Latency[n%len(p.Latency)]) * time.Millisecond
		},
		DelivDelay: func(n int) time.Duration { return time.Duration(p.Deliv[n%len(p.Deliv)]) * time.Millisecond },
	})
	if err != nil {
		v.Failf("harness: %v", err)

		return v
	}

	ext := state.WrapCore(w.Ext)

	for i, op := range p.Pre {
		Apply(w.Ctx, ext, op, 1000+i)
	}

	preLen := w.NCommits()

	plains := map[int]*sim.PlainProbe{}
	queues := map[int]*sim.QProbe{}
	regErr := map[int]error{}
	regLen := map[int]int{} // commit log length when the probe's registration returned

	register := func(i int) {
		ps := p.Probes[i]
		name := "p" + strconv.Itoa(i)

		switch ps.Flavor {
		case "plain":
			pp := &sim.PlainProbe{W: w, NameStr: name, Ins: ps.Ins, Late: ps.Late, LateAt: ps.LateAt, LateDrop: ps.LateDrop, Busy: time.Duration(ps.BusyMs) * time.Millisecond}
			plains[i] = pp
			regErr[i] = w.RT.RegisterController(pp)
		case "queue":
			qp := &sim.QProbe{W: w, NameStr: name, Ins: ps.Ins, Conc: uint(ps.Conc), Busy: time.Duration(ps.BusyMs) * time.Millisecond, Mapper: ps.Mapper}
			queues[i] = qp
			regErr[i] = w.RT.RegisterQController(qp)
		}

		regLen[i] = w.NCommits()
	}

	for i, ps := range p.Probes {
		if ps.RegAt == 0 {
			register(i)
		}
	}

	w.Run()
	synctest.Wait() // the runtime is fully started before the script begins (less schedule-dependence)

	// timeline: script ops and late registrations merged
	type ev struct {
		at  int
		reg int // probe index or -1
		op  ExtOp
		n   int
	}

	var tl []ev

	for i, op := range p.Script {
		tl = append(tl, ev{at: op.AtMs, reg: -1, op: op, n: i})
	}

	// registrations come after the writes of the same instant (stable sort below)
	for i, ps := range p.Probes {
		if ps.RegAt > 0 {
			tl = append(tl, ev{at: ps.RegAt, reg: i})
		}
	}

	if len(p.DupReg) == 2 {
		tl = append(tl, ev{at: p.DupReg[1], reg: -2 - p.DupReg[0]})
	}

	sort.SliceStable(tl, func(i, j int) bool { return tl[i].at < tl[j].at })

	for _, e := range tl {
		if d := time.Duration(e.at)*time.Millisecond - w.Now(); d > 0 {
			time.Sleep(d)
		}

		switch {
		case e.reg >= 0:
			register(e.reg)
		case e.reg <= -2:
			// a second controller under a name that is taken (only once the first one is registered)
			i := -2 - e.reg
			if _, there := regLen[i]; !there || regErr[i] != nil {
				continue
			}

			ps, name := p.Probes[i], "p"+strconv.Itoa(i)

			var err error

			if ps.Flavor == "plain" {
				err = w.RT.RegisterController(&sim.PlainProbe{W: w, NameStr: name, Ins: ps.Ins})
			} else {
				err = w.RT.RegisterQController(&sim.QProbe{W: w, NameStr: name, Ins: ps.Ins, Conc: 1, Mapper: ps.Mapper})
			}

			if err == nil {
				v.Failf("a second controller was registered under the name %s which is taken", name)
			}

			v.Label("duplicate-name-refused")
		default:
			Apply(w.Ctx, ext, e.op, e.n)
		}
	}

	quiet := w.Quiesce(30)
	log, cur := w.Snapshot()

	if done, rerr := w.RunResult(); done {
		v.Failf("runtime Run returned early: %v", rerr)
	}

	if !quiet {
		v.Inconclusive = true

		v.Label("not-quiescent")
	}

	lastCommit := func(match func(model.Key) bool, after int) int {
		idx := -1

		for i, e := range log {
			if i >= after && match(e.Commit.New.Key) {
				idx = i
			}
		}

		return idx
	}

	contents := func(in sim.InSpec) []*model.Res {
		var out []*model.Res

		for k, r := range cur {
			if matches(in, k) {
				out = append(out, r)
			}
		}

		sort.Slice(out, func(i, j int) bool { return out[i].ID < out[j].ID })

		return out
	}

	if v.Fail == "" && quiet {
		for i, ps := range p.Probes {
			if regErr[i] != nil {
				v.Failf("probe p%d %+v was rejected at registration: %v", i, ps.Ins, regErr[i])

				break
			}

			switch ps.Flavor {
			case "plain":
				pp := plains[i]
				obs, _ := pp.Snapshot()

				if len(obs) == 0 {
					v.Failf("plain probe p%d was never woken (not even the initial reconcile)", i)

					break
				}

				last := obs[len(obs)-1]

				for _, in := range pp.CurrentInputs() {
					key := in.NS + "/" + in.Typ + "/" + in.ID
					want := contents(in)

					if e, bad := last.Errs[key]; bad {
						v.Failf("plain probe p%d could not read its declared input %s: %s", i, key, e)

						continue
					}

					seen, ok := last.Seen[key]
					if !ok {
						// the input was added after the last observation was taken
						if lc := lastCommit(func(k model.Key) bool { return matches(in, k) }, last.LogLen); lc >= 0 {
							v.Failf("plain probe p%d: input %s changed at commit #%d after its last wake-up (log length %d then), which did not read it", i, key, lc, last.LogLen)
						}

						continue
					}

					if in.Kind == controller.InputDestroyReady {
						for _, r := range want {
							if !destroyReady(r) {
								continue
							}

							found := false

							for _, s := range seen {
								if model.EqualValue(s, r) {
									found = true
								}
							}

							if !found {
								v.Failf("plain probe p%d (inputs %+v, busy %dms): destroy-ready input %s: %s is tearing down without finalizers but the probe's last observation (t=%s, log length %d of %d) saw %v", i, pp.CurrentInputs(), ps.BusyMs, key, r, last.T, last.LogLen, len(log), seen)
							}
						}

						continue
					}

					if !sameSet(seen, want) {
						v.Failf("plain probe p%d (inputs %+v, busy %dms): last observation of %s (t=%s, log length %d of %d) is %v but the store now has %v", i, pp.CurrentInputs(), ps.BusyMs, key, last.T, last.LogLen, len(log), seen, want)
					}
				}

				if pp.LateAt > 0 && len(pp.CurrentInputs()) > len(ps.Ins)-len(ps.LateDrop) {
					v.Label("late-input")

					v.NonTrivial = true
				}

				if pp.LateAt > 0 && len(ps.LateDrop) > 0 && len(pp.CurrentInputs()) < len(ps.Ins)+len(ps.Late) {
					v.Label("inputs-narrowed")
				}

				for _, o := range obs {
					n := 0

					for _, e := range log {
						if e.T > o.T && e.T < o.End {
							for _, in := range pp.CurrentInputs() {
								if matches(in, e.Commit.New.Key) {
									n++
								}
							}
						}
					}

					if n >= 2 {
						v.Label("changes-while-busy")

						v.NonTrivial = true
					}
				}
			case "queue":
				qp := queues[i]
				obs := qp.Snapshot()
				after := regLen[i]

				if ps.RegAt == 0 {
					after = preLen
				}

				if len(qp.Overlaps) > 0 {
					v.Failf("queue probe p%d: %s", i, qp.Overlaps[0])
				}

				lastRec := map[model.Key]*sim.Obs{}
				for j := range obs {
					if obs[j].Job == "reconcile" {
						lastRec[obs[j].Key] = &obs[j]
					}
				}

				for _, in := range ps.Ins {
					switch in.Kind {
					case controller.InputQPrimary:
						for _, r := range contents(in) {
							o := lastRec[r.Key]
							if o == nil {
								v.Failf("queue probe p%d (regAt %dms): primary %s exists but was never reconciled (pre-existing=%v)", i, ps.RegAt, r, lastCommit(func(k model.Key) bool { return k == r.Key }, 0) < preLen)

								continue
							}

							if len(o.Seen["item"]) != 1 || !model.EqualValue(o.Seen["item"][0], r) {
								v.Failf("queue probe p%d (busy %dms conc %d): last reconcile of %s (t=%s, log length %d of %d) saw %v but the store now has %s", i, ps.BusyMs, ps.Conc, r.Key, o.T, o.LogLen, len(log), o.Seen["item"], r)
							}

							if lastCommit(func(k model.Key) bool { return k == r.Key }, 0) < preLen {
								v.Label("pre-existing-primary")

								v.NonTrivial = true
							}
						}

						// absent keys with an event after the watch was established
						for _, id := range ids {
							k := model.Key{NS: in.NS, Typ: in.Typ, ID: id}
							if !matches(in, k) || cur[k] != nil {
								continue
							}

							if lc := lastCommit(func(x model.Key) bool { return x == k }, after); lc >= 0 {
								o := lastRec[k]
								if o == nil || o.Found || o.LogLen <= lc {
									v.Failf("queue probe p%d: primary %s was destroyed at commit #%d but the probe's last reconcile of it is %+v (want a not-found observation after the destroy)", i, k, lc, o)
								}
							}
						}
					case controller.InputQMapped, controller.InputQMappedDestroyReady:
						var prim sim.InSpec

						for _, x := range ps.Ins {
							if x.Kind == controller.InputQPrimary {
								prim = x
							}
						}

						for _, id := range ids {
							k := model.Key{NS: in.NS, Typ: in.Typ, ID: id}
							if !matches(in, k) {
								continue
							}

							lc := lastCommit(func(x model.Key) bool { return x == k }, after)
							if lc < 0 {
								continue
							}

							if in.Kind == controller.InputQMappedDestroyReady {
								// the duty exists for resources that are destroy-ready now
								if !destroyReady(cur[k]) {
									continue
								}
							}

							for _, pid := range ps.Mapper[in.Typ+"/"+id] {
								pk := model.Key{NS: prim.NS, Typ: prim.Typ, ID: pid}
								ok := false

								for _, o := range obs {
									if o.Job == "reconcile" && o.Key == pk && o.LogLen > lc {
										ok = true
									}
								}

								if !ok {
									v.Failf("queue probe p%d: mapped input %s changed at commit #%d (%s) but primary %s named by the mapper was not reconciled after it", i, k, lc, log[lc].Commit.New, pk)
								}

								v.Label("mapped-change")
							}
						}
					}
				}

				for _, o := range obs {
					n := 0

					for _, e := range log {
						if e.T > o.T && e.T < o.End && e.Commit.New.Key == o.Key {
							n++
						}
					}

					if n >= 2 {
						v.Label("changes-while-busy")

						v.NonTrivial = true
					}
				}
			}

			if ps.RegAt > 0 {
				v.Label("registered-after-start")
			}
		}
	}

	// bursts: two commits at one virtual instant on one key
	for i := 1; i < len(log); i++ {
		if log[i].T == log[i-1].T && log[i].Commit.New.Key == log[i-1].Commit.New.Key && i >= preLen {
			v.Label("same-instant-burst")

			v.NonTrivial = true
		}
	}

	v.Outcome = fmt.Sprintf("%d commits, quiet=%v", len(log), quiet)

	if done, _ := w.Stop(); !done {
		v.Failf("runtime Run did not return after cancellation")
	}

	return v
}

func sameSet(a, b []*model.Res) bool {
	if len(a) != len(b) {
		return false
	}

	am := map[string]*model.Res{}
	for _, x := range a {
		am[x.ID] = x
	}

	for _, y := range b {
		if x := am[y.ID]; x == nil || !model.EqualValue(x, y) {
			return false
		}
	}

	return true
}

//go:debug randseednop=0
package c05

import (
	"testing"

	"verifharness/hk"
)

func TestMain(m *testing.M) { hk.Main(m, "C05") }

func TestS3(t *testing.T) {
	hk.RunSub(t, hk.Sub[Plan]{Name: "s3/probes", Quick: 8000, Thorough: 40000, Gen: Gen, Run: Run, Journal: true})
}

//go:build findings

// Real-time reproduction (no harness proxies, no virtual clock) of known finding c06-generic-controllers-stale-cached-reads:
// go1.26.8 test -tags "verif findings" ./findings/
package findings

import (
	"context"
	"fmt"
	"sync"
	"testing"
	"time"

	"github.com/siderolabs/gen/optional"
	"go.uber.org/zap"

	"github.com/cosi-project/runtime/pkg/controller"
	"github.com/cosi-project/runtime/pkg/controller/generic/transform"
	"github.com/cosi-project/runtime/pkg/controller/runtime"
	"github.com/cosi-project/runtime/pkg/controller/runtime/options"
	"github.com/cosi-project/runtime/pkg/resource"
	"github.com/cosi-project/runtime/pkg/state"
	"github.com/cosi-project/runtime/pkg/state/impl/inmem"
	"github.com/cosi-project/runtime/pkg/state/impl/namespaced"

	"verifharness/hres"
)

type rec struct {
	state.CoreState
	mu  sync.Mutex
	log []string
}

func (r *rec) add(s string) { r.mu.Lock(); r.log = append(r.log, s); r.mu.Unlock() }

func (r *rec) Create(ctx context.Context, res resource.Resource, o ...state.CreateOption) error {
	err := r.CoreState.Create(ctx, res, o...)
	if err == nil {
		r.add(fmt.Sprintf("create %s/%s", res.Metadata().Type(), res.Metadata().ID()))
	}

	return err
}

func (r *rec) Update(ctx context.Context, res resource.Resource, o ...state.UpdateOption) error {
	err := r.CoreState.Update(ctx, res, o...)
	if err == nil {
		r.add(fmt.Sprintf("update %s/%s phase=%s fins=%v", res.Metadata().Type(), res.Metadata().ID(), res.Metadata().Phase(), *res.Metadata().Finalizers()))
	}

	return err
}

func (r *rec) Destroy(ctx context.Context, p resource.Pointer, o ...state.DestroyOption) error {
	err := r.CoreState.Destroy(ctx, p, o...)
	if err == nil {
		r.add(fmt.Sprintf("destroy %s/%s", p.Type(), p.ID()))
	}

	return err
}

// TestCachedTransformOrphan: real runtime, real time, no harness proxies. Output kind cached; the input is destroyed
// shortly after its output was created.
func TestCachedTransformOrphan(t *testing.T) {
	orphans := 0

	for round := 0; round < 300 && orphans == 0; round++ {
		core := &rec{CoreState: namespaced.NewState(inmem.Build)}
		st := state.WrapCore(core)

		rt, err := runtime.NewRuntime(st, zap.NewNop(), options.WithCachedResource("n1", hres.TypeGB))
		if err != nil {
			t.Fatal(err)
		}

		ctrl := transform.NewController(transform.Settings[*hres.A, *hres.B]{
			Name: "xform",
			MapMetadataOptionalFunc: func(in *hres.A) optional.Optional[*hres.B] {
				return optional.Some(hres.NewB(in.Metadata().ID(), ""))
			},
			TransformFunc: func(_ context.Context, _ controller.Reader, _ *zap.Logger, in *hres.A, out *hres.B) error {
				out.TypedSpec().Value = "f(" + in.TypedSpec().Value + ")"

				return nil
			},
		})

		if err := rt.RegisterController(ctrl); err != nil {
			t.Fatal(err)
		}

		ctx, cancel := context.WithCancel(context.Background())
		done := make(chan struct{})

		go func() { _ = rt.Run(ctx); close(done) }()

		time.Sleep(5 * time.Millisecond)

		_ = st.Create(ctx, hres.NewA("c", "v0"))

		// destroy the input as soon as the output exists
		outPtr := resource.NewMetadata("n1", hres.TypeGB, "c", resource.VersionUndefined)
		for i := 0; i < 2000; i++ {
			if _, err := st.Get(ctx, outPtr); err == nil {
				break
			}

			time.Sleep(50 * time.Microsecond)
		}

		_ = st.Destroy(ctx, resource.NewMetadata("n1", hres.TypeGA, "c", resource.VersionUndefined))

		time.Sleep(300 * time.Millisecond) // far beyond any in-process cache lag

		if _, err := st.Get(ctx, outPtr); err == nil {
			orphans++

			core.mu.Lock()
			t.Logf("round %d: output GB/c still exists 300 ms after its input was destroyed; writes: %v", round, core.log)
			core.mu.Unlock()
		}

		cancel()
		<-done
	}

	if orphans > 0 {
		t.Fatalf("orphaned output with the output kind cached")
	}
}

//go:build verif

package c09

import (
	"expvar"
	"fmt"
	"math"
	"math/rand"
	"sort"
	"strconv"
	"testing"
	"testing/synctest"
	"time"

	"pgregory.net/rapid"

	"github.com/cosi-project/runtime/pkg/controller"
	"github.com/cosi-project/runtime/pkg/resource"
	"github.com/cosi-project/runtime/pkg/state"

	"verifharness/hk"
	"verifharness/hres"
	"verifharness/model"
	"verifharness/sim"
)

// BOp is an external write to a primary.
type BOp struct {
	AtMs int    `json:"at"`
	K    string `json:"k"` // create update destroy
	ID   int    `json:"id"`
	// Mapped: the write goes to the mapped input (type TB, same id) instead of the primary
	Mapped bool `json:"mapped,omitempty"`
}

// BPlan is a black-box plan: a probe QController with scripted outcomes.
type BPlan struct {
	Conc      int      `json:"conc"`
	BusyMs    int      `json:"busyms"`
	RequeueMs int      `json:"requeuems"`
	Outcomes  []string `json:"outcomes"`
	Script    []BOp    `json:"script"`
	// MapOutcomes, when non-nil, adds a mapped input (type TB; TB/x maps to the primary TA/x) whose MapInput
	// invocations end as scripted (ok | err | panic).
	MapOutcomes []string `json:"mapoutcomes,omitempty"`
}

var bids = []string{"a", "b", "c"}

// GenB draws a black-box plan.
func GenB(t *rapid.T) BPlan {
	p := BPlan{
		Conc:      rapid.IntRange(1, 4).Draw(t, "conc"),
		BusyMs:    rapid.SampledFrom([]int{0, 0, 10, 200, 2000}).Draw(t, "busy"),
		RequeueMs: rapid.SampledFrom([]int{100, 1000, 30000}).Draw(t, "requeue"),
	}

	p.Outcomes = rapid.SliceOfN(rapid.SampledFrom([]string{"ok", "ok", "err", "err", "err", "panic", "requeue", "requeue-err"}), 0, 16).Draw(t, "outcomes")

	p.Script = rapid.SliceOfN(rapid.Custom(func(t *rapid.T) BOp {
		return BOp{
			AtMs: rapid.IntRange(0, 20000).Draw(t, "at"),
			K:    rapid.SampledFrom([]string{"create", "create", "update", "update", "update", "destroy"}).Draw(t, "k"),
			ID:   rapid.IntRange(0, 2).Draw(t, "id"),
		}
	}), 1, 25).Draw(t, "script")

	if rapid.IntRange(0, 2).Draw(t, "hasmapped") == 0 {
		p.MapOutcomes = rapid.SliceOfN(rapid.SampledFrom([]string{"ok", "err", "err", "panic"}), 1, 8).Draw(t, "mapoutcomes")

		for i := range p.Script {
			p.Script[i].Mapped = rapid.IntRange(0, 2).Draw(t, "tomapped") == 0
		}
	}

	sort.SliceStable(p.Script, func(i, j int) bool { return p.Script[i].AtMs < p.Script[j].AtMs })

	// template: one key that keeps failing for more than half a virtual hour (backoff must keep its shape however
	// long the item has been failing), optionally followed by a success and further failures
	if rapid.IntRange(0, 7).Draw(t, "longfail") == 0 {
		p.Conc = 1
		p.Script = []BOp{{AtMs: 0, K: "create", ID: 0}}
		p.Outcomes, p.MapOutcomes = nil, nil

		for i, n := 0, rapid.IntRange(30, 50).Draw(t, "nfail"); i < n; i++ {
			p.Outcomes = append(p.Outcomes, "err")
		}

		p.Outcomes = append(p.Outcomes, rapid.SliceOfN(rapid.SampledFrom([]string{"ok", "err", "err", "requeue"}), 0, 6).Draw(t, "tail")...)
	}

	return p
}

// RunB executes the black-box plan.
func RunB(p BPlan) (v hk.Verdict) {
	rand.Seed(int64(len(p.Script))*31 + int64(p.BusyMs)) //nolint:staticcheck

	synctest.Test(hk.T(), func(*testing.T) { v = runB(p) })

	return v
}

const (
	initialInterval = 500 * time.Millisecond
	multiplier      = 1.5
	maxInterval     = 60 * time.Second
)

//nolint:gocyclo,gocognit,cyclop
func runB(p BPlan) (v hk.Verdict) {
	w, err := sim.NewWorld(sim.WorldOptions{})
	if err != nil {
		v.Failf("harness: %v", err)

		return v
	}

	name := "qprobe-c09"
	qp := &sim.QProbe{
		W: w, NameStr: name, Conc: uint(p.Conc), Busy: time.Duration(p.BusyMs) * time.Millisecond,
		Ins:     []sim.InSpec{{NS: "n1", Typ: "TA", Kind: controller.InputQPrimary}},
		RecOut:  sim.Outcomes(p.Outcomes),
		Requeue: time.Duration(p.RequeueMs) * time.Millisecond,
	}

	if p.MapOutcomes != nil {
		qp.Ins = append(qp.Ins, sim.InSpec{NS: "n1", Typ: "TB", Kind: controller.InputQMapped})
		qp.MapOut = sim.Outcomes(p.MapOutcomes)
		qp.Mapper = map[string][]string{}

		for _, id := range bids {
			qp.Mapper["TB/"+id] = []string{id}
		}
	}

	if err := w.RT.RegisterQController(qp); err != nil {
		v.Failf("harness: %v", err)

		return v
	}

	w.Run()
	synctest.Wait()

	ext := state.WrapCore(w.Ext)

	for i, op := range p.Script {
		if d := time.Duration(op.AtMs)*time.Millisecond - w.Now(); d > 0 {
			time.Sleep(d)
		}

		typ := "TA"
		if op.Mapped && p.MapOutcomes != nil {
			typ = "TB"
		}

		ptr := resource.NewMetadata("n1", typ, bids[op.ID], resource.VersionUndefined)

		switch op.K {
		case "create":
			_ = ext.Create(w.Ctx, hres.New("n1", typ, bids[op.ID], "v"+strconv.Itoa(i)))
		case "update":
			_, _ = ext.UpdateWithConflicts(w.Ctx, ptr, func(r resource.Resource) error {
				r.(*hres.R).SetValue("v" + strconv.Itoa(i)) //nolint:forcetypeassert

				return nil
			})
		case "destroy":
			_ = ext.Destroy(w.Ctx, ptr)
		}
	}

	quiet := w.Quiesce(40)
	log, cur := w.Snapshot()
	obs := qp.Snapshot()

	defer func() {
		if done, _ := w.Stop(); !done && v.Fail == "" {
			v.Failf("runtime did not stop")
		}
	}()

	if !quiet {
		v.Inconclusive = true

		v.Label("not-quiescent")

		return v
	}

	if len(qp.Overlaps) > 0 {
		v.Failf("per-item exclusion violated: %s", qp.Overlaps[0])
	}

	// per key sequence of invocations
	byKey := map[model.Key][]sim.Obs{}

	for _, o := range obs {
		if o.Job == "reconcile" || o.Job == "map" {
			byKey[o.Key] = append(byKey[o.Key], o)
		}
	}

	// a successful map job of TB/x queues the primary TA/x: like a change of the primary it may cut a backoff short
	mappedBetween := func(k model.Key, from, to time.Duration) bool {
		for _, o := range obs {
			if o.Job == "map" && o.Out == "ok" && o.Key.ID == k.ID && k.Typ == "TA" && o.T >= from && o.T <= to {
				return true
			}
		}

		return false
	}

	commitBetween := func(k model.Key, from, to time.Duration) bool {
		for _, e := range log {
			if e.Commit.New.Key == k && e.T >= from && e.T <= to {
				return true
			}
		}

		return false
	}

	for k, seq := range byKey {
		fails, maxFails := 0, 0

		for i, o := range seq {
			failed := o.Out == "err" || o.Out == "panic"

			if i+1 < len(seq) {
				next := seq[i+1]
				gap := next.T - o.End
				changed := commitBetween(k, o.T, next.T) || mappedBetween(k, o.T, next.T)

				switch {
				case failed && !changed:
					// n-th consecutive failure: interval in [0.5, 1.5] x 500ms x 1.5^n, capped at 60 s
					base := float64(initialInterval) * math.Pow(multiplier, float64(fails))
					if base > float64(maxInterval) {
						base = float64(maxInterval)
					}

					lo, hi := time.Duration(base*0.5), time.Duration(base*1.5)
					if gap < lo {
						v.Failf("key %s: retry after failure #%d came after %s, earlier than the backoff envelope [%s, %s] (no input change in between)", k, fails+1, gap, lo, hi)
					}

					// with at least as many workers as keys a worker is always free for this key, so the retry
					// cannot be later than the envelope either (this is what detects a backoff that never resets)
					// (reconciles and map jobs that take no time never occupy a worker either)
					if nkeys := len(bids) * (1 + len(qp.Mapper)/len(bids)); (p.Conc >= nkeys || p.BusyMs == 0) && gap > hi+time.Millisecond {
						v.Failf("key %s: retry after failure #%d came after %s, later than the backoff envelope [%s, %s] although a worker was free (backoff not reset after success?)", k, fails+1, gap, lo, hi)
					}

					v.Label("backoff-checked")
				case (o.Out == "requeue" || o.Out == "requeue-err") && !changed:
					if gap < qp.Requeue {
						v.Failf("key %s: requeue-after %s not honoured: next reconcile after %s with no input change in between", k, qp.Requeue, gap)
					}

					v.Label("requeue-checked")
				case o.Out == "ok" && !changed:
					v.Label("spurious-reconcile")
				}
			} else if failed || o.Out == "requeue" || o.Out == "requeue-err" {
				v.Failf("key %s: last invocation ended with %q but was never retried", k, o.Out)
			}

			switch {
			case failed:
				fails++
			case o.Out == "requeue-err":
				// explicit interval: the per-item backoff is neither advanced nor cleared
			default:
				fails = 0
			}

			if fails > maxFails {
				maxFails = fails
			}
		}

		if maxFails >= 2 {
			v.NonTrivial = true

			v.Label("consecutive-failures")
		}

		if k.Typ == "TB" && maxFails >= 1 {
			v.Label("map-job-failed-and-retried")
		}
	}

	// other keys keep being reconciled: every existing primary's last observation is current
	for k, r := range cur {
		if k.Typ != "TA" {
			continue
		}

		seq := byKey[k]
		if len(seq) == 0 {
			v.Failf("primary %s exists but was never reconciled", r)

			continue
		}

		last := seq[len(seq)-1]
		if len(last.Seen["item"]) != 1 || !model.EqualValue(last.Seen["item"][0], r) {
			v.Failf("primary %s: last reconcile saw %v", r, last.Seen["item"])
		}
	}

	// queue length metric at quiescence
	if m, ok := expvar.Get("qcontroller_queue_length").(*expvar.Map); ok {
		if iv, ok := m.Get(name).(*expvar.Int); ok && iv.Value() != 0 {
			v.Failf("qcontroller_queue_length reports %d at quiescence, nothing is pending", iv.Value())
		}
	}

	busyOverlap := false

	for i := range obs {
		for j := i + 1; j < len(obs); j++ {
			if obs[j].T < obs[i].End && obs[i].T < obs[j].End {
				busyOverlap = true
			}
		}
	}

	if busyOverlap {
		v.NonTrivial = true

		v.Label("two-workers-busy")
	}

	v.Outcome = fmt.Sprintf("%d reconciles, %d commits", len(obs), len(log))

	return v
}

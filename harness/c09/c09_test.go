//go:build verif

//go:debug randseednop=0
package c09

import (
	"testing"

	"verifharness/hk"
)

func TestMain(m *testing.M) { hk.Main(m, "C09") }

func TestWhiteBox(t *testing.T) {
	hk.RunSub(t, hk.Sub[QPlan]{Name: "wb/queue-model", Quick: 5000, Thorough: 50000, Gen: GenQ, Run: RunQ, Journal: true})
}

func TestBlackBox(t *testing.T) {
	hk.RunSub(t, hk.Sub[BPlan]{Name: "bb/qcontroller-backoff", Quick: 2500, Thorough: 12000, Gen: GenB, Run: RunB, Journal: true})
}

// TestStress runs the queue under real goroutines (no settling between operations).
func TestStress(t *testing.T) {
	hk.RunSub(t, hk.Sub[SQPlan]{Name: "s4/queue-stress", Quick: 400, Thorough: 4000, Gen: GenSQ, Run: RunSQ, Journal: true})
}

//go:build verif

// Package c09 checks C09: reconcile queue - per-item exclusion, coalescing, no loss, honoured backoff.
package c09

import (
	"context"
	"fmt"
	"sort"
	"testing"
	"testing/synctest"
	"time"

	"pgregory.net/rapid"

	"github.com/cosi-project/runtime/pkg/controller/runtime/verifhooks"

	"verifharness/hk"
)

// QOp is one step against the queue.
type QOp struct {
	K      string `json:"k"` // put take release requeue advance
	Key    int    `json:"key"`
	Worker int    `json:"worker"`
	Ms     int    `json:"ms"`
}

// QPlan is a white-box plan.
type QPlan struct {
	Keys    int   `json:"keys"`
	Workers int   `json:"workers"`
	Ops     []QOp `json:"ops"`
}

// GenQ draws a white-box plan.
func GenQ(t *rapid.T) QPlan {
	p := QPlan{Keys: rapid.IntRange(1, 4).Draw(t, "keys"), Workers: rapid.IntRange(1, 4).Draw(t, "workers")}

	p.Ops = rapid.SliceOfN(rapid.Custom(func(t *rapid.T) QOp {
		return QOp{
			K:      rapid.SampledFrom([]string{"put", "put", "put", "take", "take", "take", "release", "release", "requeue", "requeue", "advance"}).Draw(t, "k"),
			Key:    rapid.IntRange(0, p.Keys-1).Draw(t, "key"),
			Worker: rapid.IntRange(0, p.Workers-1).Draw(t, "worker"),
			Ms:     rapid.SampledFrom([]int{0, 1, 10, 100, 1000, 5000}).Draw(t, "ms"),
		}
	}), 1, 80).Draw(t, "ops")

	return p
}

type pend struct {
	val     int
	readyAt time.Time
}

// RunQ interprets the plan against the real queue and the reference queue.
func RunQ(p QPlan) (v hk.Verdict) {
	synctest.Test(hk.T(), func(*testing.T) { v = runQ(p) })

	return v
}

type takeReq struct {
	cancel chan struct{}
	got    chan *verifhooks.QueueItem[int, int]
}

//nolint:gocyclo,gocognit,cyclop,maintidx
func runQ(p QPlan) (v hk.Verdict) {
	ctx, cancel := context.WithCancel(context.Background())

	defer func() {
		cancel()
		synctest.Wait()
	}()

	q := verifhooks.NewQueue[int, int]()

	go q.Run(ctx)

	// reference model
	pending := map[int]pend{}
	held := map[int]bool{}
	parked := map[int]int{}
	holding := make([]*verifhooks.QueueItem[int, int], p.Workers)
	putSeq := 0
	lastRequeueAt := map[int]time.Time{}

	checkLen := func(step int, what string) bool {
		synctest.Wait()

		if got, want := q.Len(), int64(len(pending)+len(parked)); got != want {
			v.Failf("step %d (%s): Len()=%d, model has %d pending + %d parked", step, what, got, len(pending), len(parked))

			return false
		}

		return true
	}

	take := func(step int, wk int, what string) bool {
		req := takeReq{cancel: make(chan struct{}), got: make(chan *verifhooks.QueueItem[int, int], 1)}

		go func() {
			select {
			case it := <-q.Get():
				req.got <- it
			case <-req.cancel:
			}
		}()

		synctest.Wait()

		var it *verifhooks.QueueItem[int, int]

		select {
		case it = <-req.got:
		default:
			close(req.cancel)
			synctest.Wait()

			select {
			case it = <-req.got:
			default:
			}
		}

		now := time.Now()

		var eligible []int

		for k, pe := range pending {
			if !pe.readyAt.After(now) {
				eligible = append(eligible, k)
			}
		}

		sort.Ints(eligible)

		if it == nil {
			if len(eligible) > 0 {
				v.Failf("step %d (%s): nothing offered to an idle worker although keys %v are pending and due (a notification was lost or held back)", step, what, eligible)

				return false
			}

			return true
		}

		k, val := it.Get()

		if held[k] {
			v.Failf("step %d (%s): key %d handed to a second worker while it is still being processed", step, what, k)

			return false
		}

		pe, ok := pending[k]
		if !ok {
			v.Failf("step %d (%s): key %d offered although the model has nothing pending for it (duplicate delivery)", step, what, k)

			return false
		}

		if pe.readyAt.After(now) {
			v.Failf("step %d (%s): key %d delivered %s earlier than its requested release time without a fresh notification", step, what, k, pe.readyAt.Sub(now))

			return false
		}

		if val != pe.val {
			v.Failf("step %d (%s): key %d delivered with value %d, the most recent notification carried %d", step, what, k, val, pe.val)

			return false
		}

		delete(pending, k)
		held[k] = true
		holding[wk] = it

		busy := 0

		for _, h := range holding {
			if h != nil {
				busy++
			}
		}

		if busy >= 2 {
			v.NonTrivial = true

			v.Label("two-workers-busy")
		}

		return true
	}

	release := func(wk int, after time.Duration, requeue bool) {
		it := holding[wk]
		k, val := it.Get()
		now := time.Now()

		if requeue {
			it.Requeue(now.Add(after))
		} else {
			it.Release()
		}

		holding[wk] = nil

		delete(held, k)

		if requeue {
			pending[k] = pend{val: val, readyAt: now.Add(after)}
			lastRequeueAt[k] = now
		}

		if pv, ok := parked[k]; ok {
			delete(parked, k)

			pending[k] = pend{val: pv, readyAt: now}

			if requeue {
				v.NonTrivial = true

				v.Label("requeue-overtaken-by-parked-put")
			}
		}
	}

	for i, op := range p.Ops {
		what := fmt.Sprintf("%+v", op)

		switch op.K {
		case "put":
			putSeq++
			q.Put(op.Key, putSeq)

			now := time.Now()

			if held[op.Key] {
				parked[op.Key] = putSeq

				v.NonTrivial = true

				v.Label("put-while-held")
			} else if pe, ok := pending[op.Key]; ok {
				if pe.readyAt.After(now) {
					v.NonTrivial = true

					v.Label("requeue-overtaken-by-fresh-put")

					pe.readyAt = now
				}

				pe.val = putSeq
				pending[op.Key] = pe
			} else {
				pending[op.Key] = pend{val: putSeq, readyAt: now}
			}
		case "take":
			if holding[op.Worker] != nil {
				continue
			}

			if !take(i, op.Worker, what) {
				return v
			}
		case "release":
			if holding[op.Worker] == nil {
				continue
			}

			release(op.Worker, 0, false)
		case "requeue":
			if holding[op.Worker] == nil {
				continue
			}

			// requeue delays include "now" (0) and an instant already in the past (drawn 1 ms -> -1 ms): such an item
			// is due at once and still has to come out again
			after := time.Duration(op.Ms) * time.Millisecond
			if op.Ms == 1 {
				after = -time.Millisecond
			}

			release(op.Worker, after, true)
		case "advance":
			time.Sleep(time.Duration(op.Ms) * time.Millisecond)
		}

		if !checkLen(i, what) {
			return v
		}
	}

	// final drain: release everything, advance past every requeue, then everything pending must come out
	for wk := range holding {
		if holding[wk] != nil {
			release(wk, 0, false)
		}
	}

	time.Sleep(10 * time.Second)

	for n := 0; len(pending) > 0; n++ {
		if n > 20 {
			v.Failf("drain: model still has %d pending keys after 20 takes", len(pending))

			return v
		}

		if !take(len(p.Ops)+n, 0, "drain") {
			return v
		}

		if holding[0] == nil {
			v.Failf("drain: keys %v are pending in the model but nothing is offered (lost notification)", pending)

			return v
		}

		release(0, 0, false)

		if !checkLen(len(p.Ops)+n, "drain") {
			return v
		}
	}

	if !take(len(p.Ops)+100, 0, "final") {
		return v
	}

	if holding[0] != nil {
		release(0, 0, false)
	}

	v.Outcome = fmt.Sprintf("%d ops, %d puts", len(p.Ops), putSeq)

	return v
}

//go:build verif

package c09

import (
	"context"
	"fmt"
	"sync"
	"time"

	"pgregory.net/rapid"

	"github.com/cosi-project/runtime/pkg/controller/runtime/verifhooks"

	"verifharness/hk"
)

// SQPlan is the stress plan for the queue: real goroutines, no settling between operations. One producer per key puts
// strictly increasing values; workers take items, hold them briefly and release them. Oracle: per key the delivered
// values never decrease (a delivery carries the most recent value put before it was handed out, and values only grow),
// no key is held by two workers at once, and when the producers are done and everything is released the last
// delivery of every key carries the last value put.
type SQPlan struct {
	Keys    int   `json:"keys"`
	Puts    int   `json:"puts"` // per key
	Workers int   `json:"workers"`
	HoldUS  []int `json:"holdus"` // cycled per delivery
	GapUS   []int `json:"gapus"`  // producer pause before each put (cycled); 0 = none
}

// GenSQ draws a stress plan.
func GenSQ(t *rapid.T) SQPlan {
	return SQPlan{
		Keys:    rapid.IntRange(1, 3).Draw(t, "keys"),
		Puts:    rapid.IntRange(4, 40).Draw(t, "puts"),
		Workers: rapid.IntRange(1, 3).Draw(t, "workers"),
		HoldUS:  rapid.SliceOfN(rapid.SampledFrom([]int{0, 0, 1, 20, 200}), 1, 5).Draw(t, "hold"),
		GapUS:   rapid.SliceOfN(rapid.SampledFrom([]int{0, 0, 0, 1, 50}), 1, 5).Draw(t, "gap"),
	}
}

// RunSQ executes the stress plan.
func RunSQ(p SQPlan) (v hk.Verdict) {
	ctx, cancel := context.WithCancel(context.Background())
	defer cancel()

	q := verifhooks.NewQueue[int, int]()

	go q.Run(ctx)

	var (
		mu        sync.Mutex
		delivered = make([][]int, p.Keys)
		holding   = map[int]int{}
		releasing int // items taken and not yet released (Release has returned)
		problems  []string
		ndeliv    int
	)

	var wwg sync.WaitGroup

	stop := make(chan struct{})

	for w := 0; w < p.Workers; w++ {
		wwg.Add(1)

		go func() {
			defer wwg.Done()

			for {
				select {
				case <-stop:
					return
				case it := <-q.Get():
					k, val := it.Get()

					mu.Lock()
					holding[k]++
					releasing++

					if holding[k] > 1 {
						problems = append(problems, fmt.Sprintf("key %d handed out to two workers at once", k))
					}

					delivered[k] = append(delivered[k], val)
					n := ndeliv
					ndeliv++
					mu.Unlock()

					if h := p.HoldUS[n%len(p.HoldUS)]; h > 0 {
						time.Sleep(time.Duration(h) * time.Microsecond)
					}

					// exclusion is judged on what lies between taking and releasing; idleness only ends after the release
					mu.Lock()
					holding[k]--
					mu.Unlock()

					it.Release()

					mu.Lock()
					releasing--
					mu.Unlock()
				}
			}
		}()
	}

	var pwg sync.WaitGroup

	for k := 0; k < p.Keys; k++ {
		pwg.Add(1)

		go func() {
			defer pwg.Done()

			for i := 1; i <= p.Puts; i++ {
				if g := p.GapUS[(i+k)%len(p.GapUS)]; g > 0 {
					time.Sleep(time.Duration(g) * time.Microsecond)
				}

				q.Put(k, i)
			}
		}()
	}

	pwg.Wait()

	// everything put has been accepted: wait until the workers have gone idle (nothing held, no delivery for a while)
	idleSince, lastN := time.Now(), -1
	deadline := time.Now().Add(5 * time.Second)

	for {
		mu.Lock()
		busy := releasing
		n := ndeliv
		mu.Unlock()

		if busy > 0 || n != lastN {
			idleSince, lastN = time.Now(), n
		}

		// normally the queue says when it is empty; a queue that miscounts is given a long quiet second instead
		if busy == 0 && q.Len() == 0 && time.Since(idleSince) > 2*time.Millisecond {
			break
		}

		if time.Since(idleSince) > time.Second {
			break
		}

		if time.Now().After(deadline) {
			v.Inconclusive = true

			v.Label("workers-did-not-go-idle-in-time")

			close(stop)
			wwg.Wait()

			return v
		}

		time.Sleep(200 * time.Microsecond)
	}

	// a machine under load may have descheduled a worker between taking an item and recording it: before judging, give
	// every key whose last delivery is not the last value put two more seconds to catch up (a lost value never arrives)
	for grace := time.Now().Add(2 * time.Second); time.Now().Before(grace); time.Sleep(time.Millisecond) {
		mu.Lock()
		complete := true

		for _, vals := range delivered {
			if len(vals) == 0 || vals[len(vals)-1] != p.Puts {
				complete = false
			}
		}

		if releasing > 0 {
			complete = false
		}
		mu.Unlock()

		if complete {
			break
		}
	}

	// idle workers wait on Get: whatever the queue still counts is not pending for anybody
	if l := q.Len(); l != 0 {
		close(stop)
		wwg.Wait()

		v.Failf("the queue reports length %d although every worker is idle waiting for items and all producers are done", l)

		return v
	}

	close(stop)
	wwg.Wait()

	mu.Lock()
	defer mu.Unlock()

	for _, pr := range problems {
		v.Failf("%s", pr)

		return v
	}

	coalesced := false

	for k, vals := range delivered {
		for i := 1; i < len(vals); i++ {
			if vals[i] < vals[i-1] {
				v.Failf("key %d: deliveries carried the values %v: value %d was delivered after %d although values were put in increasing order (a delivery must carry the most recent value)", k, vals, vals[i], vals[i-1])

				return v
			}
		}

		if len(vals) == 0 || vals[len(vals)-1] != p.Puts {
			v.Failf("key %d: %d values were put in increasing order, the queue is empty and idle, but the last delivery carried %v (all deliveries: %v): the most recent value was lost", k, p.Puts, last(vals), vals)

			return v
		}

		if len(vals) < p.Puts {
			coalesced = true
		}
	}

	v.NonTrivial = coalesced

	if coalesced {
		v.Label("puts-coalesced-under-real-concurrency")
	}

	v.Outcome = fmt.Sprintf("%d keys x %d puts, %d deliveries", p.Keys, p.Puts, ndeliv)

	return v
}

func last(v []int) any {
	if len(v) == 0 {
		return "nothing"
	}

	return v[len(v)-1]
}

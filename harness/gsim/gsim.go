// Package gsim simulates the generic controllers (transform, qtransform, cleanup) in the S3 world; it
// is shared by the C06 (convergence) and C07 (finalizer ordering) checks.
package gsim

import (
	"context"
	"fmt"
	"math/rand"
	"slices"
	"sort"
	"strconv"
	"strings"
	"sync"
	"testing"
	"testing/synctest"
	"time"

	"github.com/siderolabs/gen/optional"
	"github.com/siderolabs/gen/xerrors"
	"go.uber.org/zap"
	"pgregory.net/rapid"

	"github.com/cosi-project/runtime/pkg/controller"
	"github.com/cosi-project/runtime/pkg/controller/generic/cleanup"
	"github.com/cosi-project/runtime/pkg/controller/generic/qtransform"
	"github.com/cosi-project/runtime/pkg/controller/generic/transform"
	"github.com/cosi-project/runtime/pkg/resource"
	"github.com/cosi-project/runtime/pkg/state"

	"verifharness/hk"
	"verifharness/hres"
	"verifharness/model"
	"verifharness/sim"
)

// Controller names and finalizers.
const (
	CtrlName    = "xform"
	CleanupName = "cleaner"
	ExtI        = "extI" // external finalizers on inputs
	ExtJ        = "extJ"
	ExtB        = "extB" // external finalizer on outputs
)

// GOp is an external script operation.
type GOp struct {
	AtMs int    `json:"at"`
	K    string `json:"k"` // create update teardown destroy in-addfin in-remfin out-addfin out-remfin c-create c-destroy
	ID   int    `json:"id"`
	Arg  int    `json:"arg"`
}

// Plan is a generic-controller simulation plan.
type Plan struct {
	Ctrl    string `json:"ctrl"` // transform transform-fin transform-ignore qtransform qtransform-until qtransform-while
	Cleanup bool   `json:"cleanup"`
	// Combine (with Cleanup): the cleanup controller uses cleanup.Combine of two RemoveOutputs handlers, the first for
	// dependants of type GC (script argument 0), the second for type GD (argument 1).
	Combine     bool  `json:"combine,omitempty"`
	Conc        int   `json:"conc"`
	DropIDs     []int `json:"drop"`
	TransformMs int   `json:"transformms"`
	ErrPattern  []int `json:"errpattern"`
	// ErrDeadline: the transient transform errors wrap context.DeadlineExceeded (a bounded sub-call of the transform
	// gave up) instead of being plain errors; the controller's own context is alive.
	ErrDeadline bool `json:"errdeadline,omitempty"`
	StoreFaults []int `json:"storefaults"`
	Script      []GOp `json:"script"`
	// ReactOut lists the ids whose output has a reactive third party: the moment it sees the output turn
	// tearing-down it places its finalizer on it (legal: finalizers may be added in any phase), i.e. right
	// between the controller's Teardown and Destroy of that output.
	ReactOut []int `json:"reactout,omitempty"`
	// ReactDep (with Cleanup): a reactive third party puts its finalizer on a dependant the moment it turns tearing-down
	// (between the cleanup handler's Teardown and Destroy of that dependant).
	ReactDep bool `json:"reactdep,omitempty"`
	// Cached lists the kinds served from the runtime read cache (0 inputs GA, 1 outputs GB, 2 dependants GC):
	// controller reads of those kinds lag behind the store by the delivery delays.
	Cached []int `json:"cached,omitempty"`
	// DestroyTag (qtransform only): the transform function answers an input whose value starts with "drop" with an
	// error tagged qtransform.DestroyOutputTag ("output is not needed anymore"): such an input has no image.
	DestroyTag bool  `json:"destroytag,omitempty"`
	// HandlerFail (with Cleanup): the removal handler's n-th invocations (global count) fail before doing anything, with
	// a plain error (HandlerFailKind 0), an error wrapping context.Canceled (1: a sub-context of the handler was
	// cancelled; the controller's own context is alive) or one wrapping context.DeadlineExceeded (2). A failed
	// invocation removed nothing: the cleanup finalizer must stay.
	HandlerFail     []int `json:"handlerfail,omitempty"`
	HandlerFailKind int   `json:"handlerfailkind,omitempty"`
	// Gate (transform with input finalizers only): ids whose FinalizerRemovalFunc refuses, for the whole run, with an
	// error tagged transform.SkipReconcileTag ("not yet, retry on the next event"): the controller's finalizer then
	// stays on such an input once it is torn down - and so does its output (nothing else ever removes outputs here).
	Gate       []int `json:"gate,omitempty"`
	Release    bool  `json:"release"`
	Latency    []int `json:"latency"`
	Deliv      []int `json:"deliv"`
}

// IDs of the input domain.
var IDs = []string{"a", "b", "c"}

// F is the transformation.
func F(v string) string { return "f(" + v + ")" }

// UsesInputFinalizers tells whether the configuration puts the controller's finalizer on inputs.
func (p Plan) UsesInputFinalizers() bool {
	return p.Ctrl != "transform" && p.Ctrl != "transform-ignore"
}

// Gen draws a plan; ctrls restricts the configurations.
func Gen(ctrls []string) func(t *rapid.T) Plan {
	return func(t *rapid.T) Plan {
		p := Plan{
			Ctrl:        rapid.SampledFrom(ctrls).Draw(t, "ctrl"),
			Cleanup:     rapid.IntRange(0, 3).Draw(t, "cleanup") == 0,
			Conc:        rapid.IntRange(1, 4).Draw(t, "conc"),
			TransformMs: rapid.SampledFrom([]int{0, 0, 10, 200, 1500}).Draw(t, "transformms"),
			Release:     rapid.IntRange(0, 3).Draw(t, "release") > 0,
		}

		if p.Cleanup {
			p.Combine = rapid.Bool().Draw(t, "combine")
			p.ReactDep = rapid.IntRange(0, 2).Draw(t, "reactdep") == 0

			if rapid.IntRange(0, 2).Draw(t, "hashandlerfail") == 0 {
				p.HandlerFail = rapid.SliceOfNDistinct(rapid.IntRange(0, 5), 1, 3, rapid.ID[int]).Draw(t, "handlerfail")
				p.HandlerFailKind = rapid.IntRange(0, 2).Draw(t, "handlerfailkind")
			}
		}

		if rapid.IntRange(0, 3).Draw(t, "hasdrop") == 0 {
			p.DropIDs = []int{rapid.IntRange(0, 2).Draw(t, "dropid")}
		}

		if strings.HasPrefix(p.Ctrl, "qtransform") {
			p.DestroyTag = rapid.Bool().Draw(t, "destroytag")
		}

		if rapid.IntRange(0, 2).Draw(t, "hascache") == 0 {
			p.Cached = rapid.SliceOfNDistinct(rapid.IntRange(0, 2), 1, 3, rapid.ID[int]).Draw(t, "cached")

			// known findings (see known_findings.json and DESIGN.md 7.3): with a read cache on the input, output or dependant
			// kind the generic controllers take irreversible decisions (skip an output in cleanup, release a finalizer,
			// destroy an output) on reads that lag behind the store, their own writes included. While those findings are
			// open no cached kinds are generated here (the draw above is kept so that plans stay comparable).
			if hk.KnownOpen("c06-generic-controllers-stale-cached-reads") || hk.KnownOpen("c07-generic-controllers-stale-cached-reads") {
				p.Cached = nil
			}
		}

		if p.Ctrl == "transform-fin" && rapid.IntRange(0, 2).Draw(t, "hasgate") == 0 {
			p.Gate = rapid.SliceOfNDistinct(rapid.IntRange(0, 2), 1, 2, rapid.ID[int]).Draw(t, "gate")
		}

		if rapid.IntRange(0, 2).Draw(t, "hasreact") == 0 {
			p.ReactOut = rapid.SliceOfNDistinct(rapid.IntRange(0, 2), 1, 3, rapid.ID[int]).Draw(t, "reactout")
		}

		p.ErrPattern = rapid.SliceOfNDistinct(rapid.IntRange(0, 8), 0, 3, rapid.ID[int]).Draw(t, "errpattern")
		p.ErrDeadline = len(p.ErrPattern) > 0 && rapid.IntRange(0, 2).Draw(t, "errdeadline") == 0
		p.StoreFaults = rapid.SliceOfNDistinct(rapid.IntRange(0, 20), 0, 3, rapid.ID[int]).Draw(t, "storefaults")

		ks := []string{"create", "create", "update", "update", "teardown", "teardown", "destroy", "destroy", "in-addfin", "in-remfin", "out-addfin", "out-addfin", "out-remfin"}
		if p.Cleanup {
			ks = append(ks, "c-create", "c-create", "c-destroy", "c-addfin", "c-remfin")
		}

		// per-id lifecycles: a random walk over the external party's view (absent -> running -> tearing down -> absent ...)
		// with valid-looking operations most of the time and arbitrary ones otherwise; times accumulate.
		for idx := 0; idx < 3; idx++ {
			if rapid.IntRange(0, 3).Draw(t, "skipid") == 0 {
				continue
			}

			at, st := rapid.IntRange(0, 500).Draw(t, "t0"), 0 // 0 absent 1 running 2 tearing down
			n := rapid.IntRange(1, 14).Draw(t, "nsteps")

			// template: an input that is first seen already tearing down while a foreign finalizer holds it, and that
			// is released and destroyed in one instant later (needs the ignore-teardown options to matter)
			if rapid.IntRange(0, 4).Draw(t, "template") == 0 {
				fin := rapid.IntRange(0, 1).Draw(t, "tfin")
				later := at + rapid.SampledFrom([]int{100, 1000, 5000}).Draw(t, "tlater")

				p.Script = append(p.Script,
					GOp{AtMs: at, K: "create", ID: idx}, GOp{AtMs: at, K: "in-addfin", ID: idx, Arg: fin}, GOp{AtMs: at, K: "teardown", ID: idx},
					GOp{AtMs: later, K: "in-remfin", ID: idx, Arg: fin}, GOp{AtMs: later, K: "destroy", ID: idx})

				at, st = later+rapid.SampledFrom([]int{0, 100, 2000}).Draw(t, "tgap"), 0
			}

			for j := 0; j < n; j++ {
				var k string

				if rapid.IntRange(0, 9).Draw(t, "wild") == 0 {
					k = rapid.SampledFrom(ks).Draw(t, "k")
				} else {
					switch st {
					case 0:
						k = "create"
					case 1:
						k = rapid.SampledFrom([]string{"update", "update", "out-addfin", "out-addfin", "in-addfin", "teardown", "teardown", "out-remfin", "c-create", "c-create", "c-addfin"}).Draw(t, "krun")
					case 2:
						k = rapid.SampledFrom([]string{"destroy", "destroy", "destroy", "out-remfin", "out-remfin", "in-remfin", "in-remfin", "c-destroy", "c-remfin"}).Draw(t, "ktear")
					}
				}

				if p.DestroyTag && k == "update" && rapid.IntRange(0, 1).Draw(t, "drop") == 0 {
					k = "update-drop"
				}

				if !p.Cleanup && (k == "c-create" || k == "c-destroy" || k == "c-addfin" || k == "c-remfin") {
					k = "update"
				}

				switch k {
				case "create":
					st = 1
				case "teardown":
					if st == 1 {
						st = 2
					}
				case "destroy":
					if st == 2 {
						st = 0 // optimistic: may fail while finalizers are pending; the walk then retries create harmlessly
					}
				}

				p.Script = append(p.Script, GOp{AtMs: at, K: k, ID: idx, Arg: rapid.IntRange(0, 1).Draw(t, "arg")})
				at += rapid.SampledFrom([]int{0, 0, 10, 100, 400, 1000, 3000}).Draw(t, "dt")
			}
		}

		if len(p.Script) == 0 {
			p.Script = []GOp{{AtMs: 0, K: "create", ID: 0}}
		}

		sort.SliceStable(p.Script, func(i, j int) bool { return p.Script[i].AtMs < p.Script[j].AtMs })

		p.Latency = rapid.SliceOfN(rapid.SampledFrom([]int{0, 0, 0, 1, 20, 150}), 1, 5).Draw(t, "latency")
		p.Deliv = rapid.SliceOfN(rapid.SampledFrom([]int{0, 0, 0, 5, 300}), 1, 5).Draw(t, "deliv")

		return p
	}
}

// HandlerCall records one invocation of the cleanup removal handler.
type HandlerCall struct {
	ID       string
	StartLen int // commit log length when the handler was invoked
	LogLen   int // commit log length when it returned
	Nil      bool
}

// Result is what a simulation produced.
type Result struct {
	Plan    Plan
	Log     []sim.LogEntry
	Cur     map[model.Key]*model.Res
	Quiet   bool
	RunErr  string
	Early   bool
	Handler []HandlerCall
	// ExtFinsPlaced tracks external finalizers currently placed by the script (key "typ/id/fin").
	ExtHeld map[string]bool
	// DestroyResults: for torn-down inputs at the end, result of the owner's destroy attempt (done after snapshot)
	InputDestroyErr map[string]string
	Harness         string
	// Transforms counts transform invocations; InFlightWrites counts external writes during a transform
	Transforms     int
	WritesInFlight int
}

// Run executes the plan in a bubble.
func Run(p Plan) *Result {
	rand.Seed(int64(len(p.Script))*104729 + int64(p.TransformMs)) //nolint:staticcheck

	var res *Result

	synctest.Test(hk.T(), func(*testing.T) { res = runBubble(p) })

	return res
}

// depType is the type of the dependant addressed by a script argument.
func depType(p Plan, arg int) string {
	if p.Combine && arg == 1 {
		return hres.TypeGD
	}

	return hres.TypeGC
}

func dropped(p Plan, id string) bool {
	for _, d := range p.DropIDs {
		if IDs[d] == id {
			return true
		}
	}

	return false
}

// Live tells whether the input has an image: the controller configuration treats it as running and its transform does
// not answer with DestroyOutputTag.
func Live(p Plan, in *model.Res) bool {
	if p.DestroyTag && in != nil && strings.HasPrefix(in.Val, "drop") {
		return false
	}

	return TreatedAsRunning(p, in)
}

// Gated tells whether the finalizer removal function refuses for the input id (see Plan.Gate).
func Gated(p Plan, id string) bool {
	for _, g := range p.Gate {
		if IDs[g] == id {
			return true
		}
	}

	return false
}

// TreatedAsRunning tells whether the controller configuration reconciles the input as a running one (it is running, or
// its teardown is ignored by the controller options).
func TreatedAsRunning(p Plan, in *model.Res) bool {
	if in == nil || dropped(p, in.ID) {
		return false
	}

	if in.Phase == 0 {
		return true
	}

	switch p.Ctrl {
	case "transform-ignore":
		return true
	case "qtransform-until":
		for _, f := range in.Fins {
			if f != CtrlName && f != ExtI {
				return true
			}
		}
	case "qtransform-while":
		return slices.Contains(in.Fins, ExtI)
	}

	return false
}

//nolint:gocyclo,gocognit,cyclop,maintidx
func runBubble(p Plan) *Result {
	res := &Result{Plan: p, ExtHeld: map[string]bool{}, InputDestroyErr: map[string]string{}}

	faults := map[int]bool{}
	for _, f := range p.StoreFaults {
		faults[f] = true
	}

	var (
		fmu    sync.Mutex
		nwrite int
	)

	var cachedKinds []model.Key
	for _, c := range p.Cached {
		cachedKinds = append(cachedKinds, model.Key{NS: "n1", Typ: []string{hres.TypeGA, hres.TypeGB, hres.TypeGC}[c]})
	}

	w, err := sim.NewWorld(sim.WorldOptions{
		Cached: cachedKinds,
		RTLatency: func(_ string, n int) time.Duration {
			return time.Duration(p.Latency[n%len(p.Latency)]) * time.Millisecond
		},
		DelivDelay: func(n int) time.Duration { return time.Duration(p.Deliv[n%len(p.Deliv)]) * time.Millisecond },
		RTFault: func(op string, _ model.Key, _ int) error {
			if op != "Create" && op != "Update" && op != "Destroy" {
				return nil
			}

			fmu.Lock()
			defer fmu.Unlock()

			n := nwrite
			nwrite++

			if faults[n] {
				return sim.ErrInjected
			}

			return nil
		},
	})
	if err != nil {
		res.Harness = err.Error()

		return res
	}

	errAt := map[int]bool{}
	for _, e := range p.ErrPattern {
		errAt[e] = true
	}

	var (
		tmu      sync.Mutex
		ntrans   int
		inflight int
	)

	transformFn := func(ctx context.Context, _ controller.Reader, _ *zap.Logger, in *hres.A, out *hres.B) error {
		tmu.Lock()
		n := ntrans
		ntrans++
		inflight++
		tmu.Unlock()

		defer func() {
			tmu.Lock()
			inflight--
			tmu.Unlock()
		}()

		w.Touch()

		if p.TransformMs > 0 {
			select {
			case <-ctx.Done():
				return ctx.Err()
			case <-time.After(time.Duration(p.TransformMs) * time.Millisecond):
			}
		}

		if errAt[n] {
			if p.ErrDeadline {
				return fmt.Errorf("transient transform error #%d: sub-call gave up: %w", n, context.DeadlineExceeded)
			}

			return fmt.Errorf("transient transform error #%d", n)
		}

		if p.DestroyTag && strings.HasPrefix(in.TypedSpec().Value, "drop") {
			return xerrors.NewTaggedf[qtransform.DestroyOutputTag]("output of %s is not needed", in.Metadata().ID())
		}

		out.TypedSpec().Value = F(in.TypedSpec().Value)

		return nil
	}

	mapOpt := func(in *hres.A) optional.Optional[*hres.B] {
		if dropped(p, in.Metadata().ID()) {
			return optional.None[*hres.B]()
		}

		return optional.Some(hres.NewB(in.Metadata().ID(), ""))
	}

	var regErr error

	switch p.Ctrl {
	case "transform", "transform-fin", "transform-ignore":
		var opts []transform.ControllerOption

		settings := transform.Settings[*hres.A, *hres.B]{
			Name:                    CtrlName,
			MapMetadataOptionalFunc: mapOpt,
			TransformFunc:           transformFn,
		}

		switch p.Ctrl {
		case "transform-fin":
			opts = append(opts, transform.WithInputFinalizers())
			settings.FinalizerRemovalFunc = func(_ context.Context, _ controller.Reader, _ *zap.Logger, in *hres.A) error {
				if Gated(p, in.Metadata().ID()) {
					return xerrors.NewTaggedf[transform.SkipReconcileTag]("removal of the finalizer on %s is not cleared yet", in.Metadata().ID())
				}

				return nil
			}
		case "transform-ignore":
			opts = append(opts, transform.WithIgnoreTearingDownInputs())
		}

		regErr = w.RT.RegisterController(transform.NewController(settings, opts...))
	default:
		opts := []qtransform.ControllerOption{qtransform.WithConcurrency(uint(p.Conc))}

		switch p.Ctrl {
		case "qtransform-until":
			opts = append(opts, qtransform.WithIgnoreTeardownUntil(ExtI))
		case "qtransform-while":
			opts = append(opts, qtransform.WithIgnoreTeardownWhile(ExtI))
		}

		regErr = w.RT.RegisterQController(qtransform.NewQController(qtransform.Settings[*hres.A, *hres.B]{
			Name:                    CtrlName,
			MapMetadataOptionalFunc: mapOpt,
			UnmapMetadataFunc:       func(out *hres.B) *hres.A { return hres.NewA(out.Metadata().ID(), "") },
			TransformFunc:           transformFn,
		}, opts...))
	}

	if regErr != nil {
		res.Harness = "registration: " + regErr.Error()

		return res
	}

	var hmu sync.Mutex

	if p.Cleanup {
		inner := cleanup.RemoveOutputs[*hres.C](func(in *hres.A) state.ListOption {
			return state.WithLabelQuery(resource.LabelEqual("parent", in.Metadata().ID()))
		})

		if p.Combine {
			inner = cleanup.Combine(inner, cleanup.RemoveOutputs[*hres.D](func(in *hres.A) state.ListOption {
				return state.WithLabelQuery(resource.LabelEqual("parent", in.Metadata().ID()))
			}))
		}

		regErr = w.RT.RegisterController(cleanup.NewController(cleanup.Settings[*hres.A]{
			Name:    CleanupName,
			Handler: &recHandler{Handler: inner, w: w, mu: &hmu, res: res, fail: p.HandlerFail, kind: p.HandlerFailKind},
		}))
		if regErr != nil {
			res.Harness = "cleanup registration: " + regErr.Error()

			return res
		}
	}

	w.Run()
	synctest.Wait()

	ext := state.WrapCore(w.Ext)
	ctx := w.Ctx

	var xmu sync.Mutex

	hold := func(k string, v bool) {
		xmu.Lock()
		defer xmu.Unlock()

		if v {
			res.ExtHeld[k] = true
		} else {
			delete(res.ExtHeld, k)
		}
	}

	if len(p.ReactOut) > 0 {
		rch := make(chan state.Event)

		if err := ext.WatchKind(ctx, resource.NewMetadata("n1", hres.TypeGB, "", resource.VersionUndefined), rch); err != nil {
			res.Harness = "reactive watch: " + err.Error()

			return res
		}

		go func() {
			for {
				select {
				case <-ctx.Done():
					return
				case ev := <-rch:
					if ev.Type != state.Updated || ev.Resource.Metadata().Phase() != resource.PhaseTearingDown || ev.Old == nil || ev.Old.Metadata().Phase() != resource.PhaseRunning {
						continue
					}

					id := ev.Resource.Metadata().ID()

					for _, ri := range p.ReactOut {
						if IDs[ri] == id && ext.AddFinalizer(ctx, ev.Resource.Metadata(), ExtB) == nil {
							hold(hres.TypeGB+"/"+id+"/"+ExtB, true)
						}
					}
				}
			}
		}()
	}

	if p.ReactDep {
		dch := make(chan state.Event)

		for _, typ := range []string{hres.TypeGC, hres.TypeGD} {
			if err := ext.WatchKind(ctx, resource.NewMetadata("n1", typ, "", resource.VersionUndefined), dch); err != nil {
				res.Harness = "reactive dependant watch: " + err.Error()

				return res
			}
		}

		go func() {
			for {
				select {
				case <-ctx.Done():
					return
				case ev := <-dch:
					if ev.Type == state.Updated && ev.Resource.Metadata().Phase() == resource.PhaseTearingDown && ev.Old != nil && ev.Old.Metadata().Phase() == resource.PhaseRunning {
						_ = ext.AddFinalizer(ctx, ev.Resource.Metadata(), "extC")
					}
				}
			}
		}()
	}

	apply := func(op GOp, n int) {
		id := IDs[op.ID]
		inPtr := resource.NewMetadata("n1", hres.TypeGA, id, resource.VersionUndefined)
		outPtr := resource.NewMetadata("n1", hres.TypeGB, id, resource.VersionUndefined)
		fin := []string{ExtI, ExtJ}[op.Arg]

		tmu.Lock()
		if inflight > 0 {
			res.WritesInFlight++
		}
		tmu.Unlock()

		switch op.K {
		case "create":
			_ = ext.Create(ctx, hres.NewA(id, "v"+strconv.Itoa(n)))
		case "update":
			_, _ = ext.UpdateWithConflicts(ctx, inPtr, func(r resource.Resource) error {
				hres.SetTypedValue(r, "v"+strconv.Itoa(n))

				return nil
			})
		case "update-drop":
			_, _ = ext.UpdateWithConflicts(ctx, inPtr, func(r resource.Resource) error {
				hres.SetTypedValue(r, "drop"+strconv.Itoa(n))

				return nil
			})
		case "teardown":
			_, _ = ext.Teardown(ctx, inPtr)
		case "destroy":
			_ = ext.Destroy(ctx, inPtr)
		case "in-addfin":
			// a well-behaved party only places finalizers on running resources
			if r, err := ext.Get(ctx, inPtr); err == nil && r.Metadata().Phase() == resource.PhaseRunning {
				if ext.AddFinalizer(ctx, inPtr, fin) == nil {
					hold(hres.TypeGA+"/"+id+"/"+fin, true)
				}
			}
		case "in-remfin":
			if ext.RemoveFinalizer(ctx, inPtr, fin) == nil {
				hold(hres.TypeGA+"/"+id+"/"+fin, false)
			}
		case "out-addfin":
			if r, err := ext.Get(ctx, outPtr); err == nil && r.Metadata().Phase() == resource.PhaseRunning {
				if ext.AddFinalizer(ctx, outPtr, ExtB) == nil {
					hold(hres.TypeGB+"/"+id+"/"+ExtB, true)
				}
			}
		case "out-remfin":
			if ext.RemoveFinalizer(ctx, outPtr, ExtB) == nil {
				hold(hres.TypeGB+"/"+id+"/"+ExtB, false)
			}
		case "c-create":
			var c resource.Resource = hres.NewC(id+strconv.Itoa(op.Arg), "dep")
			if p.Combine && op.Arg == 1 {
				c = hres.NewD(id+strconv.Itoa(op.Arg), "dep")
			}

			c.Metadata().Labels().Set("parent", id)
			_ = ext.Create(ctx, c)
		case "c-addfin":
			_ = ext.AddFinalizer(ctx, resource.NewMetadata("n1", depType(p, op.Arg), id+strconv.Itoa(op.Arg), resource.VersionUndefined), "extC")
		case "c-remfin":
			_ = ext.RemoveFinalizer(ctx, resource.NewMetadata("n1", depType(p, op.Arg), id+strconv.Itoa(op.Arg), resource.VersionUndefined), "extC")
		case "c-destroy":
			_ = ext.Destroy(ctx, resource.NewMetadata("n1", depType(p, op.Arg), id+strconv.Itoa(op.Arg), resource.VersionUndefined))
		}
	}

	for i, op := range p.Script {
		if d := time.Duration(op.AtMs)*time.Millisecond - w.Now(); d > 0 {
			time.Sleep(d)
		}

		apply(op, i)
	}

	if p.Release {
		// let things settle, then release every external finalizer still held
		w.QuiesceCommits(20)

		for _, id := range IDs {
			for _, f := range []string{ExtI, ExtJ} {
				if ext.RemoveFinalizer(ctx, resource.NewMetadata("n1", hres.TypeGA, id, resource.VersionUndefined), f) == nil {
					hold(hres.TypeGA+"/"+id+"/"+f, false)
				}
			}

			if ext.RemoveFinalizer(ctx, resource.NewMetadata("n1", hres.TypeGB, id, resource.VersionUndefined), ExtB) == nil {
				hold(hres.TypeGB+"/"+id+"/"+ExtB, false)
			}

			for arg, sfx := range []string{"0", "1"} {
				_ = ext.RemoveFinalizer(ctx, resource.NewMetadata("n1", depType(p, arg), id+sfx, resource.VersionUndefined), "extC")
			}
		}
	}

	res.Quiet = w.QuiesceCommits(40)
	res.Log, res.Cur = w.Snapshot()

	if done, rerr := w.RunResult(); done {
		res.Early = true
		res.RunErr = fmt.Sprint(rerr)
	}

	tmu.Lock()
	res.Transforms = ntrans
	tmu.Unlock()

	// the owner's destroy attempt on every torn-down input
	for _, id := range IDs {
		k := model.Key{NS: "n1", Typ: hres.TypeGA, ID: id}
		if r := res.Cur[k]; r != nil && r.Phase == 1 {
			if err := ext.Destroy(ctx, resource.NewMetadata("n1", hres.TypeGA, id, resource.VersionUndefined)); err != nil {
				res.InputDestroyErr[id] = err.Error()
			} else {
				res.InputDestroyErr[id] = ""
			}
		}
	}

	if done, _ := w.Stop(); !done {
		res.Harness = "runtime did not stop after cancellation"
	}

	return res
}

type recHandler struct {
	cleanup.Handler[*hres.A]
	w    *sim.World
	mu   *sync.Mutex
	res  *Result
	fail []int
	kind int
	n    int
}

func (h *recHandler) FinalizerRemoval(ctx context.Context, r controller.Runtime, l *zap.Logger, in *hres.A) error {
	start := h.w.NCommits()

	h.mu.Lock()
	n := h.n
	h.n++
	h.mu.Unlock()

	var err error

	if slices.Contains(h.fail, n) {
		switch h.kind {
		case 1:
			err = fmt.Errorf("removal handler call #%d gave up: %w", n, context.Canceled)
		case 2:
			err = fmt.Errorf("removal handler call #%d gave up: %w", n, context.DeadlineExceeded)
		default:
			err = fmt.Errorf("removal handler call #%d failed", n)
		}
	} else {
		err = h.Handler.FinalizerRemoval(ctx, r, l, in)
	}

	h.mu.Lock()
	h.res.Handler = append(h.res.Handler, HandlerCall{ID: in.Metadata().ID(), StartLen: start, LogLen: h.w.NCommits(), Nil: err == nil})
	h.mu.Unlock()

	return err
}

// StateAt replays the log.
func StateAt(log []sim.LogEntry, n int) map[model.Key]*model.Res {
	m := map[model.Key]*model.Res{}

	for _, e := range log[:n] {
		if e.Commit.Kind == model.Destroyed {
			delete(m, e.Commit.New.Key)
		} else {
			m[e.Commit.New.Key] = e.Commit.New
		}
	}

	return m
}

// InKey / OutKey build keys.
func InKey(id string) model.Key  { return model.Key{NS: "n1", Typ: hres.TypeGA, ID: id} }
func OutKey(id string) model.Key { return model.Key{NS: "n1", Typ: hres.TypeGB, ID: id} }

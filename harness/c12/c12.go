// Package c12 checks C12: bookmarks resume exactly; stale or foreign ones are rejected; tails are exact.
package c12

import (
	"bytes"
	"context"
	"encoding/hex"
	"fmt"
	"os"
	"os/exec"
	"strings"
	"sync"
	"testing"
	"testing/synctest"
	"time"

	"pgregory.net/rapid"

	"github.com/cosi-project/runtime/pkg/resource"
	"github.com/cosi-project/runtime/pkg/state"
	"github.com/cosi-project/runtime/pkg/state/impl/inmem"

	"verifharness/hk"
	"verifharness/hres"
	"verifharness/model"
	"verifharness/sim"
)

// WOp is a write.
type WOp struct {
	K   string `json:"k"`
	Typ int    `json:"typ"`
	ID  int    `json:"id"`
}

// Garble describes an alteration of a valid bookmark.
type Garble struct {
	Pos  int  `json:"pos"`  // which delivered bookmark (index modulo)
	Byte int  `json:"byte"` // which byte (modulo length)
	Xor  byte `json:"xor"`
	Cut  int  `json:"cut"` // >0 truncate by, <0 extend by
}

// Plan is a C12 plan.
type Plan struct {
	Init int `json:"init"`
	Max  int `json:"max"`
	Gap  int `json:"gap"`
	// CfgStyle: how the options reach the effective configuration (see historyOptions)
	CfgStyle int      `json:"cfgstyle,omitempty"`
	Phase1   []WOp    `json:"phase1"`
	Phase2   []WOp    `json:"phase2"`
	Tails    []int    `json:"tails"`
	Random   [][]byte `json:"random"`
	Garbles  []Garble `json:"garbles"`
	Single   int      `json:"single"`
}

var typs = []string{"TA", "TB"}

func genWOps(t *rapid.T, label string, lo, hi int) []WOp {
	return rapid.SliceOfN(rapid.Custom(func(t *rapid.T) WOp {
		return WOp{
			K:   rapid.SampledFrom([]string{"create", "create", "update", "update", "update", "destroy", "label", "label"}).Draw(t, "k"),
			Typ: rapid.SampledFrom([]int{0, 0, 0, 1}).Draw(t, "typ"),
			ID:  rapid.IntRange(0, 2).Draw(t, "id"),
		}
	}), lo, hi).Draw(t, label)
}

// Gen draws a plan.
func Gen(t *rapid.T) Plan {
	p := Plan{}

	if rapid.IntRange(0, 14).Draw(t, "defaultcfg") == 0 {
		p.Init, p.Max, p.Gap = 100, 100, 5
	} else {
		p.Init = rapid.IntRange(1, 8).Draw(t, "init")
		p.Max = rapid.IntRange(p.Init, 4*p.Init).Draw(t, "max")
		p.Gap = rapid.IntRange(0, p.Init-1).Draw(t, "gap")

		if rapid.IntRange(0, 3).Draw(t, "cfgalt") == 0 {
			p.Max = p.Init
			p.CfgStyle = rapid.IntRange(1, 2).Draw(t, "cfgstyle")
		}

		// larger buffers with a tiny or zero gap (a gap of 0 is a legal setting, not "unset")
		if rapid.IntRange(0, 5).Draw(t, "biggap0") == 0 {
			p.Init = rapid.SampledFrom([]int{20, 24, 40}).Draw(t, "biginit")
			p.Max = p.Init * rapid.IntRange(1, 2).Draw(t, "bigmaxmul")
			p.Gap = rapid.IntRange(0, 2).Draw(t, "biggap")
			p.CfgStyle = 0
		}
	}

	if p.Init >= 20 && p.Init < 100 {
		// long enough to fill (and, when it cannot grow, wrap) the larger buffers
		p.Phase1 = genWOps(t, "phase1", 3*p.Init, 6*p.Init)
	} else {
		p.Phase1 = genWOps(t, "phase1", 0, 50)
	}
	p.Phase2 = genWOps(t, "phase2", 0, 30)
	p.Tails = rapid.SliceOfN(rapid.IntRange(1, p.Max+3), 1, 4).Draw(t, "tails")
	p.Random = rapid.SliceOfN(rapid.SliceOfN(rapid.Byte(), 0, 24), 0, 3).Draw(t, "random")
	p.Garbles = rapid.SliceOfN(rapid.Custom(func(t *rapid.T) Garble {
		return Garble{
			Pos:  rapid.IntRange(0, 200).Draw(t, "gpos"),
			Byte: rapid.IntRange(0, 15).Draw(t, "gbyte"),
			Xor:  byte(rapid.IntRange(0, 255).Draw(t, "gxor")),
			Cut:  rapid.SampledFrom([]int{0, 0, 0, 1, 3, 8, -1, -4}).Draw(t, "gcut"),
		}
	}), 0, 6).Draw(t, "garbles")
	p.Single = rapid.IntRange(0, 2).Draw(t, "single")

	return p
}

// Run executes a plan inside a bubble (used only for deterministic quiescence).
func Run(p Plan) (v hk.Verdict) {
	foreign := foreignBookmarks()

	synctest.Test(hk.T(), func(*testing.T) { v = runBubble(p, foreign) })

	return v
}

type world struct {
	ctx   context.Context
	st    state.CoreState
	log   map[string][]model.Commit // per type
	cur   map[model.Key]*model.Res
	bm    map[string][]state.Bookmark // original bookmark per position, learnt from the full stream
	nwrit int
}

func (w *world) write(ops []WOp) {
	for _, op := range ops {
		typ := typs[op.Typ]
		k := model.Key{NS: "n1", Typ: typ, ID: hres.IDs[op.ID]}
		ptr := resource.NewMetadata(k.NS, k.Typ, k.ID, resource.VersionUndefined)
		w.nwrit++

		synctest.Wait() // let the eager full-stream watchers keep up with every single write

		switch op.K {
		case "create":
			r := hres.New(k.NS, k.Typ, k.ID, fmt.Sprintf("v%d", w.nwrit))
			if w.st.Create(w.ctx, r) == nil {
				m := model.FromResource(r)
				w.cur[k] = m
				w.log[typ] = append(w.log[typ], model.Commit{Kind: model.Created, New: m.Clone()})
			}
		case "update":
			r, err := w.st.Get(w.ctx, ptr)
			if err != nil {
				continue
			}

			r.(*hres.R).SetValue(fmt.Sprintf("v%d", w.nwrit)) //nolint:forcetypeassert

			if w.st.Update(w.ctx, r) == nil {
				m := model.FromResource(r)
				w.log[typ] = append(w.log[typ], model.Commit{Kind: model.Updated, New: m.Clone(), Old: w.cur[k].Clone()})
				w.cur[k] = m
			}
		case "label":
			// flip the label the filtered watches select on
			r, err := w.st.Get(w.ctx, ptr)
			if err != nil {
				continue
			}

			if _, ok := r.Metadata().Labels().Get(selLabel); ok {
				r.Metadata().Labels().Delete(selLabel)
			} else {
				r.Metadata().Labels().Set(selLabel, "x")
			}

			if w.st.Update(w.ctx, r) == nil {
				m := model.FromResource(r)
				w.log[typ] = append(w.log[typ], model.Commit{Kind: model.Updated, New: m.Clone(), Old: w.cur[k].Clone()})
				w.cur[k] = m
			}
		case "destroy":
			if w.st.Destroy(w.ctx, ptr) == nil {
				w.log[typ] = append(w.log[typ], model.Commit{Kind: model.Destroyed, New: w.cur[k].Clone()})
				delete(w.cur, k)
			}
		}
	}
}

// selLabel is the label the filtered watch modes ("kind-label", "agg-label") select on.
const selLabel = "sel"

func selected(r *model.Res) bool {
	if r == nil {
		return false
	}

	_, ok := r.Labels[selLabel]

	return ok
}

// filteredKind tells what a watch filtered on selLabel delivers for a commit: "" (nothing), or the event type name.
func filteredKind(c model.Commit) string {
	switch c.Kind {
	case model.Created:
		if selected(c.New) {
			return "Created"
		}
	case model.Destroyed:
		if selected(c.New) {
			return "Destroyed"
		}
	case model.Updated:
		switch was, is := selected(c.Old), selected(c.New); {
		case was && is:
			return "Updated"
		case was:
			return "Destroyed" // left the selection
		case is:
			return "Created" // entered the selection
		}
	}

	return ""
}

func (ws watchSpec) filtered() bool { return strings.HasSuffix(ws.mode, "-label") }

// watchSpec: kind of watch.
type watchSpec struct {
	mode string // single kind agg
	typ  string
	id   string
}

func (ws watchSpec) String() string { return ws.mode + ":" + ws.typ + "/" + ws.id }

// open starts a watch and returns a collector; err is the establishment error.
func (w *world) open(ws watchSpec, bookmark state.Bookmark, tail int, bootstrap bool) (func() []state.Event, func(), error) {
	ctx, cancel := context.WithCancel(w.ctx)

	var (
		mu  sync.Mutex
		evs []state.Event
		err error
	)

	kind := resource.NewMetadata("n1", ws.typ, "", resource.VersionUndefined)

	switch ws.mode {
	case "single":
		ch := make(chan state.Event)

		var opts []state.WatchOption
		if bookmark != nil {
			opts = append(opts, state.WithStartFromBookmark(bookmark))
		}

		if tail > 0 {
			opts = append(opts, state.WithTailEvents(tail))
		}

		err = w.st.Watch(ctx, resource.NewMetadata("n1", ws.typ, ws.id, resource.VersionUndefined), ch, opts...)
		if err == nil {
			go func() {
				for {
					select {
					case <-ctx.Done():
						return
					case e := <-ch:
						mu.Lock()
						evs = append(evs, e)
						mu.Unlock()
					}
				}
			}()
		}
	default:
		var opts []state.WatchKindOption
		if bookmark != nil {
			opts = append(opts, state.WithKindStartFromBookmark(bookmark))
		}

		if tail > 0 {
			opts = append(opts, state.WithKindTailEvents(tail))
		}

		if bootstrap {
			opts = append(opts, state.WithBootstrapContents(true))
		}

		if ws.filtered() {
			opts = append(opts, state.WatchWithLabelQuery(resource.LabelExists(selLabel)))
		}

		if ws.mode == "kind" || ws.mode == "kind-label" {
			ch := make(chan state.Event)

			err = w.st.WatchKind(ctx, kind, ch, opts...)
			if err == nil {
				go func() {
					for {
						select {
						case <-ctx.Done():
							return
						case e := <-ch:
							mu.Lock()
							evs = append(evs, e)
							mu.Unlock()
						}
					}
				}()
			}
		} else {
			ch := make(chan []state.Event)

			err = w.st.WatchKindAggregated(ctx, kind, ch, opts...)
			if err == nil {
				go func() {
					for {
						select {
						case <-ctx.Done():
							return
						case e := <-ch:
							mu.Lock()
							evs = append(evs, e...)
							mu.Unlock()
						}
					}
				}()
			}
		}
	}

	if err != nil {
		cancel()

		return nil, func() {}, err
	}

	collect := func() []state.Event {
		synctest.Wait()
		mu.Lock()
		defer mu.Unlock()

		return append([]state.Event(nil), evs...)
	}

	return collect, cancel, nil
}

func abs(x int) int {
	if x < 0 {
		return -x
	}

	return x
}

// restrict returns the positions of the collection log the watch must deliver.
func restrict(ws watchSpec, log []model.Commit, from int) []int {
	var out []int

	for i := from; i < len(log); i++ {
		if ws.mode == "single" && log[i].New.ID != ws.id {
			continue
		}

		if ws.filtered() && filteredKind(log[i]) == "" {
			continue
		}

		out = append(out, i)
	}

	return out
}

func matchEvent(ws watchSpec, e state.Event, c model.Commit) string {
	if ws.filtered() {
		want := filteredKind(c)
		if e.Type.String() != want {
			return fmt.Sprintf("event type %s, want %s (filtered view of %s %s)", e.Type, want, c.Kind, c.New)
		}

		if d := model.Diff(e.Resource, c.New); d != "" {
			return d
		}

		if want == "Updated" {
			if e.Old == nil {
				return "Updated without Old"
			}

			if d := model.Diff(e.Old, c.Old); d != "" {
				return "old value: " + d
			}
		}

		return ""
	}

	if e.Type.String() != c.Kind.String() {
		return fmt.Sprintf("event type %s, want %s %s", e.Type, c.Kind, c.New)
	}

	if d := model.Diff(e.Resource, c.New); d != "" {
		return d
	}

	if c.Kind == model.Updated {
		if e.Old == nil {
			return "Updated without Old"
		}

		if d := model.Diff(e.Old, c.Old); d != "" {
			return "old value: " + d
		}
	}

	return ""
}

// checkSuffix verifies that evs are exactly the commits at positions pos (of log) in order with
// the original bookmarks.
func (w *world) checkSuffix(ws watchSpec, evs []state.Event, positions []int) string {
	log := w.log[ws.typ]

	if len(evs) != len(positions) {
		return fmt.Sprintf("delivered %d events, want %d (positions %v)", len(evs), len(positions), positions)
	}

	for i, pos := range positions {
		if d := matchEvent(ws, evs[i], log[pos]); d != "" {
			return fmt.Sprintf("event %d (log position %d): %s", i, pos, d)
		}

		if len(evs[i].Bookmark) == 0 {
			return fmt.Sprintf("event %d carries no bookmark", i)
		}

		if orig := w.bm[ws.typ]; pos < len(orig) && orig[pos] != nil && !bytes.Equal(orig[pos], evs[i].Bookmark) {
			return fmt.Sprintf("event %d (log position %d) carries bookmark %x, the uninterrupted stream carried %x", i, pos, evs[i].Bookmark, orig[pos])
		}
	}

	return ""
}

//nolint:gocyclo,gocognit,cyclop,maintidx
func runBubble(p Plan, foreign []state.Bookmark) (v hk.Verdict) {
	ctx, cancel := context.WithCancel(context.Background())
	defer func() {
		cancel()
		synctest.Wait()
	}()

	w := &world{
		ctx: ctx,
		st:  sim.NewNamespaced(historyOptions(p.Init, p.Max, p.Gap, p.CfgStyle)...),
		log: map[string][]model.Commit{}, cur: map[model.Key]*model.Res{}, bm: map[string][]state.Bookmark{},
	}

	specs := []watchSpec{
		{"single", "TA", hres.IDs[p.Single]},
		{"kind", "TA", ""},
		{"agg", "TA", ""},
	}

	// full streams started on the empty state with bootstrap (kind/agg): they give the -1 bookmark
	type full struct {
		collect func() []state.Event
		stop    func()
	}

	fulls := map[string]full{}

	// filtered modes take part in (a) only: resume from every bookmark their own stream delivered
	lspecs := []watchSpec{{"kind-label", "TA", ""}, {"agg-label", "TA", ""}}

	for _, ws := range append(append([]watchSpec(nil), specs...), lspecs...) {
		c, stop, err := w.open(ws, nil, 0, ws.mode != "single")
		if err != nil {
			v.Failf("cannot open full watch %s: %v", ws, err)

			return v
		}

		fulls[ws.mode] = full{c, stop}
	}

	var bootBM state.Bookmark

	learn := func() string {
		// learn original bookmarks from the full kind stream (skip bootstrap marker)
		evs := fulls["kind"].collect()
		if len(evs) == 0 || evs[0].Type != state.Bootstrapped {
			return fmt.Sprintf("full kind stream does not start with Bootstrapped: %d events", len(evs))
		}

		bootBM = evs[0].Bookmark
		evs = evs[1:]
		log := w.log["TA"]

		if len(evs) > 0 && evs[len(evs)-1].Type == state.Errored {
			return "" // the eager full watcher cannot lag; if it does C02 reports it
		}

		if len(evs) != len(log) {
			return fmt.Sprintf("full kind stream has %d events for %d commits", len(evs), len(log))
		}

		bms := make([]state.Bookmark, len(log))
		for i := range evs {
			bms[i] = evs[i].Bookmark
		}

		w.bm["TA"] = bms

		return ""
	}

	checkpoint := func(phase string) bool {
		if f := learn(); f != "" {
			v.Failf("%s: %s", phase, f)

			return false
		}

		log := w.log["TA"]
		W := len(log)

		if W > p.Init {
			v.Label("wrap")
		}

		// (a) resume from every delivered bookmark, every watch kind
		for _, ws := range append(append([]watchSpec(nil), specs...), lspecs...) {
			// bookmarks delivered on this watch's own full stream
			fe := fulls[ws.mode].collect()

			var own []state.Event

			for _, e := range fe {
				if e.Type == state.Created || e.Type == state.Updated || e.Type == state.Destroyed {
					if len(e.Bookmark) > 0 { // the single watch's initial event has none
						own = append(own, e)
					} else if ws.mode != "single" {
						v.Failf("%s: %s delivered %s of %s without a bookmark", phase, ws, e.Type, e.Resource.Metadata().ID())

						return false
					}
				}
			}

			ownPos := restrict(ws, log, 0)
			if len(own) != len(ownPos) {
				v.Failf("%s: full %s stream delivered %d change events, log has %d for it", phase, ws, len(own), len(ownPos))

				return false
			}

			type cand struct {
				bm  state.Bookmark
				pos int
			}

			var cands []cand
			for i, e := range own {
				cands = append(cands, cand{e.Bookmark, ownPos[i]})
			}

			if ws.mode != "single" {
				cands = append(cands, cand{bootBM, -1})
			}

			if ws.filtered() && len(own) > 0 {
				v.Label("filtered-watch-resumed")
			}

			for _, c := range cands {
				mustAccept := c.pos >= W-(p.Init-p.Gap) && c.pos < W
				mustReject := c.pos < W-(p.Max-p.Gap) || c.pos >= W

				if abs(c.pos-(W-(p.Init-p.Gap))) <= 2 || abs(c.pos-(W-(p.Max-p.Gap))) <= 2 {
					if W > p.Init {
						v.NonTrivial = true

						v.Label("boundary-bookmark-after-wrap")
					}
				}

				collect, stop, err := w.open(ws, c.bm, 0, false)

				switch {
				case err != nil:
					if !state.IsInvalidWatchBookmarkError(err) {
						v.Failf("%s: %s resume from position %d failed with an error that is not an invalid-bookmark error: %v", phase, ws, c.pos, err)

						return false
					}

					if mustAccept {
						v.Failf("%s: %s resume from position %d of %d rejected although it is among the most recent initial-gap=%d events", phase, ws, c.pos, W, p.Init-p.Gap)

						return false
					}

					v.Label("resume-rejected")
				default:
					if mustReject {
						stop()
						v.Failf("%s: %s resume from position %d of %d accepted although it is older than the retained history (max-gap=%d)", phase, ws, c.pos, W, p.Max-p.Gap)

						return false
					}

					evs := collect()
					stop()

					if f := w.checkSuffix(ws, evs, restrict(ws, log, c.pos+1)); f != "" {
						v.Failf("%s: %s resumed from position %d of %d (init=%d max=%d gap=%d): %s", phase, ws, c.pos, W, p.Init, p.Max, p.Gap, f)

						return false
					}

					v.Label("resume-accepted")
				}
			}
		}

		// (b) tails
		for _, n := range p.Tails {
			for _, ws := range specs {
				collect, stop, err := w.open(ws, nil, n, false)
				if err != nil {
					v.Failf("%s: %s tail %d failed: %v", phase, ws, n, err)

					return false
				}

				evs := collect()
				stop()

				all := restrict(ws, log, 0)
				k := len(evs)

				if k > n || k > len(all) {
					v.Failf("%s: %s tail %d delivered %d events (available %d)", phase, ws, n, k, len(all))

					return false
				}

				positions := all[len(all)-k:]
				if f := w.checkSuffix(ws, evs, positions); f != "" {
					v.Failf("%s: %s tail %d: %s", phase, ws, n, f)

					return false
				}

				// lower bound: every wanted event within the guaranteed window must be there;
				// upper bound: nothing older than the maximum window
				for j, pos := range all {
					rank := len(all) - j // 1 = newest
					if rank > n {
						continue
					}

					delivered := rank <= k
					if !delivered && pos >= W-(p.Init-p.Gap) {
						v.Failf("%s: %s tail %d omitted the event at position %d of %d which is inside the guaranteed window (init-gap=%d)", phase, ws, n, pos, W, p.Init-p.Gap)

						return false
					}

					if delivered && pos < W-(p.Max-p.Gap) {
						v.Failf("%s: %s tail %d delivered the event at position %d of %d which is outside the retained window (max-gap=%d)", phase, ws, n, pos, W, p.Max-p.Gap)

						return false
					}
				}

				if n > p.Init-p.Gap {
					v.NonTrivial = true

					v.Label("tail-exceeds-window")
				}
			}
		}

		if W == 0 {
			v.NonTrivial = true

			v.Label("empty-log")
		}

		// (c) hostile bookmarks
		var hostile [][]byte

		hostile = append(hostile, p.Random...)

		for _, g := range p.Garbles {
			if len(w.bm["TA"]) == 0 {
				break
			}

			b := append([]byte(nil), w.bm["TA"][g.Pos%len(w.bm["TA"])]...)
			if g.Xor != 0 {
				b[g.Byte%len(b)] ^= g.Xor
			}

			switch {
			case g.Cut > 0 && g.Cut < len(b):
				b = b[:len(b)-g.Cut]
			case g.Cut < 0:
				b = append(b, make([]byte, -g.Cut)...)
			}

			hostile = append(hostile, b)
		}

		// ahead of the log: bookmarks of the longer TB log, and of another incarnation
		tbFull, tbStop, err := w.open(watchSpec{"kind", "TB", ""}, nil, 1000, false)
		if err == nil {
			for _, e := range tbFull() {
				if len(w.log["TB"]) > W && len(e.Bookmark) > 0 {
					hostile = append(hostile, e.Bookmark)
				}
			}

			tbStop()
		}

		// bookmarks minted by another process incarnation are rejected wherever they point
		for _, fb := range foreign {
			v.Label("foreign-incarnation-bookmark")

			for _, ws := range specs {
				_, stop, err := w.open(ws, fb, 0, false)
				if err == nil {
					stop()

					v.Failf("%s: %s accepted bookmark %x, which was issued by another process incarnation", phase, ws, fb)

					return false
				}

				if !state.IsInvalidWatchBookmarkError(err) {
					v.Failf("%s: %s with the foreign bookmark %x failed with an error that is not invalid-bookmark: %v", phase, ws, fb, err)

					return false
				}
			}
		}

		for _, hb := range hostile {
			for _, ws := range specs {
				collect, stop, err := w.open(ws, hb, 0, false)
				if err != nil {
					if !state.IsInvalidWatchBookmarkError(err) {
						v.Failf("%s: %s with bookmark %x failed with an error that is not invalid-bookmark: %v", phase, ws, hb, err)

						return false
					}

					v.Label("hostile-rejected")

					continue
				}

				evs := collect()
				stop()

				// accepted: must be a contiguous suffix starting inside the retained window
				q := -2

				for pos, ob := range w.bm["TA"] {
					if bytes.Equal(ob, hb) {
						q = pos
					}
				}

				if bytes.Equal(bootBM, hb) {
					q = -1
				}

				if q == -2 {
					v.Failf("%s: %s accepted bookmark %x which was never issued for this log (delivered %d events)", phase, ws, hb, len(evs))

					return false
				}

				if q < W-(p.Max-p.Gap) || q >= W {
					v.Failf("%s: %s accepted bookmark of position %d of %d outside the retained window", phase, ws, q, W)

					return false
				}

				if f := w.checkSuffix(ws, evs, restrict(ws, log, q+1)); f != "" {
					v.Failf("%s: %s accepted hostile bookmark (position %d): %s", phase, ws, q, f)

					return false
				}

				v.Label("hostile-accepted-exact")
			}
		}

		return true
	}

	w.write(p.Phase1)

	if !checkpoint("after phase 1") {
		return v
	}

	// a tail watch opened now must continue live through phase 2
	liveCollect, liveStop, err := w.open(specs[1], nil, p.Tails[0], false)
	if err != nil {
		v.Failf("tail watch: %v", err)

		return v
	}

	before := len(liveCollect())
	w1 := len(w.log["TA"])

	w.write(p.Phase2)

	if len(p.Phase2) > 0 {
		evs := liveCollect()
		if n := len(evs); n > 0 && evs[n-1].Type == state.Errored {
			v.Label("live-tail-errored")
		} else if f := w.checkSuffix(specs[1], evs[before:], restrict(specs[1], w.log["TA"], w1)); f != "" {
			v.Failf("tail watch continuing live through phase 2: %s", f)

			return v
		}
	}

	liveStop()

	if !checkpoint("after phase 2") {
		return v
	}

	v.Outcome = fmt.Sprintf("TA log %d, TB log %d, init=%d max=%d gap=%d", len(w.log["TA"]), len(w.log["TB"]), p.Init, p.Max, p.Gap)

	for _, f := range fulls {
		f.stop()
	}

	return v
}

// foreignBookmarks returns bookmarks minted by another process incarnation (helper re-exec).
var foreignBookmarks = sync.OnceValue(func() []state.Bookmark {
	if os.Getenv("VERIF_C12_HELPER") != "" {
		return nil
	}

	// The other incarnation is started as close as possible before this process mints its own first bookmark (and not
	// across a wall-clock second boundary): an incarnation marker derived from coarse time, a counter or a pid-free
	// constant would then coincide. This only sharpens detection; the oracle does not depend on the clock.
	if ns := time.Now().Nanosecond(); ns > 400_000_000 {
		time.Sleep(time.Duration(1_000_000_000-ns) * time.Nanosecond)
	}

	cmd := exec.Command(os.Args[0], "-test.run", "^TestHelperBookmarks$")
	cmd.Env = append(os.Environ(), "VERIF_C12_HELPER=1", "VERIF_REPLAY=", "VERIF_OUT="+hk.OutDir()+"/helper")

	out, err := cmd.Output()
	if err != nil {
		return nil
	}

	// mint this incarnation's first bookmark right away
	{
		st := inmem.NewState("n0")
		_ = st.Create(context.Background(), hres.New("n0", "TA", "first", "x"))
	}

	var res []state.Bookmark

	for _, line := range strings.Split(string(out), "\n") {
		if strings.HasPrefix(line, "BOOKMARK ") {
			if b, err := hex.DecodeString(strings.TrimPrefix(line, "BOOKMARK ")); err == nil {
				res = append(res, b)
			}
		}
	}

	return res
})

// HelperMain prints bookmarks of this process incarnation.
func HelperMain() {
	st := inmem.NewState("n1")
	ctx, cancel := context.WithCancel(context.Background())

	defer cancel()

	ch := make(chan state.Event)

	_ = st.WatchKind(ctx, resource.NewMetadata("n1", "TA", "", resource.VersionUndefined), ch, state.WithBootstrapBookmark(true))

	e := <-ch
	fmt.Printf("BOOKMARK %x\n", []byte(e.Bookmark))

	for i := 0; i < 4; i++ {
		_ = st.Create(ctx, hres.New("n1", "TA", fmt.Sprintf("h%d", i), "x"))
		e = <-ch
		fmt.Printf("BOOKMARK %x\n", []byte(e.Bookmark))
	}
}

// historyOptions builds the inmem options for the effective (init, max, gap) configuration. style 0 gives them in the
// natural way; styles 1 and 2 (only when init == max) reach the same effective configuration through the options'
// own normalisation: 1 = a smaller max first, then the initial capacity (which raises max); 2 = a larger initial
// capacity first, then max (which lowers the initial capacity).
func historyOptions(init, maxCap, gap, style int) []inmem.StateOption {
	switch {
	case style == 1 && init == maxCap && init > 1:
		return []inmem.StateOption{inmem.WithHistoryMaxCapacity(init / 2), inmem.WithHistoryInitialCapacity(init), inmem.WithHistoryGap(gap)}
	case style == 2 && init == maxCap:
		return []inmem.StateOption{inmem.WithHistoryInitialCapacity(2*maxCap + 3), inmem.WithHistoryMaxCapacity(maxCap), inmem.WithHistoryGap(gap)}
	}

	return []inmem.StateOption{inmem.WithHistoryInitialCapacity(init), inmem.WithHistoryMaxCapacity(maxCap), inmem.WithHistoryGap(gap)}
}

package c12

import (
	"os"
	"testing"

	"verifharness/hk"
)

func TestMain(m *testing.M) {
	if os.Getenv("VERIF_C12_HELPER") != "" {
		HelperMain()
		os.Exit(0)
	}

	hk.Main(m, "C12")
}

func TestHelperBookmarks(t *testing.T) {}

func TestS1(t *testing.T) {
	hk.RunSub(t, hk.Sub[Plan]{Name: "s1/bookmarks", Quick: 4000, Thorough: 20000, Gen: Gen, Run: Run, Journal: true})
}

package c12

import (
	"bytes"
	"context"
	"testing"
	"testing/synctest"

	"github.com/cosi-project/runtime/pkg/state"
	"github.com/cosi-project/runtime/pkg/state/impl/inmem"

	"verifharness/model"
	"verifharness/sim"
)

// FuzzBookmark feeds (selector, mask, tail) derived bookmarks into all three watch kinds of a small
// wrapped history. bookmark = validBookmark[selector] XOR mask (mask of zeros = a valid bookmark),
// optionally truncated/extended; the oracle is the hostile-bookmark oracle of the rapid check.
func FuzzBookmark(f *testing.F) {
	f.Add(uint8(0), []byte{}, uint8(0))
	f.Add(uint8(3), make([]byte, 16), uint8(0))
	f.Add(uint8(9), []byte{0, 0, 0, 0, 0, 0, 0, 0, 0, 0, 0, 0, 0, 0, 0, 1}, uint8(0))
	f.Add(uint8(9), []byte{0, 0, 0, 0, 0, 0, 0, 0, 0xff, 0xff, 0xff, 0xff, 0xff, 0xff, 0xff, 0xff}, uint8(1))
	f.Add(uint8(5), []byte{1}, uint8(2))
	f.Add(uint8(200), []byte{0, 0, 0, 0, 0, 0, 0, 0, 0x80}, uint8(17))

	f.Fuzz(func(t *testing.T, sel uint8, mask []byte, shape uint8) {
		synctest.Test(t, func(t *testing.T) {
			ctx, cancel := context.WithCancel(context.Background())
			defer func() {
				cancel()
				synctest.Wait()
			}()

			const initCap, maxCap, gap = 4, 8, 1

			w := &world{
				ctx: ctx,
				st:  sim.NewNamespaced(inmem.WithHistoryInitialCapacity(initCap), inmem.WithHistoryMaxCapacity(maxCap), inmem.WithHistoryGap(gap)),
				log: map[string][]model.Commit{}, cur: map[model.Key]*model.Res{}, bm: map[string][]state.Bookmark{},
			}

			full, stop, err := w.open(watchSpec{"kind", "TA", ""}, nil, 0, true)
			if err != nil {
				t.Fatal(err)
			}

			defer stop()

			var ops []WOp
			for i := 0; i < 11; i++ {
				ops = append(ops, WOp{K: []string{"create", "update", "update", "destroy"}[i%4], Typ: 0, ID: i % 2})
			}

			w.write(ops)

			evs := full()
			boot := evs[0].Bookmark

			var bms []state.Bookmark
			for _, e := range evs[1:] {
				bms = append(bms, e.Bookmark)
			}

			w.bm["TA"] = bms
			W := len(bms)

			b := append([]byte(nil), append([]state.Bookmark{boot}, bms...)[int(sel)%(W+1)]...)
			for i := range mask {
				if i < len(b) {
					b[i] ^= mask[i]
				}
			}

			switch shape % 4 {
			case 1:
				b = b[:len(b)-int(shape/4)%len(b)]
			case 2:
				b = append(b, mask...)
			case 3:
				b = mask
			}

			for _, ws := range []watchSpec{{"single", "TA", "a"}, {"kind", "TA", ""}, {"agg", "TA", ""}} {
				collect, stopw, err := w.open(ws, b, 0, false)
				if err != nil {
					if !state.IsInvalidWatchBookmarkError(err) {
						t.Fatalf("%s: bookmark %x: error is not an invalid-bookmark error: %v", ws, b, err)
					}

					continue
				}

				got := collect()
				stopw()

				q := -2

				for pos, ob := range bms {
					if bytes.Equal(ob, b) {
						q = pos
					}
				}

				if bytes.Equal(boot, b) && ws.mode != "single" {
					q = -1
				}

				if q == -2 {
					t.Fatalf("%s accepted bookmark %x which was never issued for this log", ws, b)
				}

				if q < W-(maxCap-gap) || q >= W {
					t.Fatalf("%s accepted bookmark of position %d of %d outside the retained window", ws, q, W)
				}

				if f := w.checkSuffix(ws, got, restrict(ws, w.log["TA"], q+1)); f != "" {
					t.Fatalf("%s accepted bookmark of position %d: %s", ws, q, f)
				}
			}
		})
	})
}

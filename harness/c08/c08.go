// Package c08 checks C08: controllers are confined to declared inputs/outputs and resources they own.
package c08

import (
	"context"
	"errors"
	"fmt"
	"sort"
	"testing"
	"testing/synctest"

	"github.com/siderolabs/gen/optional"
	"go.uber.org/zap"
	"pgregory.net/rapid"

	"github.com/cosi-project/runtime/pkg/controller"
	"github.com/cosi-project/runtime/pkg/resource"
	"github.com/cosi-project/runtime/pkg/state"

	"verifharness/hk"
	"verifharness/hres"
	"verifharness/model"
	"verifharness/sim"
)

// Ops a controller can attempt.
var Ops = []string{"Get", "GetUncached", "List", "ListUncached", "ContextWithTeardown", "Create", "Update", "Modify", "ModifyWithResult",
	"Teardown", "Destroy", "AddFinalizer", "RemoveFinalizer", "CleanupOutputs", "UpdateForged"}

// Relations between the target (n1, TT, x) and the controller's declarations.
var Relations = []string{"output-excl", "output-shared", "in-weak-kind", "in-weak-id", "in-weak-otherid", "in-strong-kind", "in-strong-id",
	"in-strong-otherid", "in-destroyready-kind", "in-strong-otherns", "in-mapped-kind", "unrelated"}

// OwnerStates of the target before the attempt.
var OwnerStates = []string{"absent", "ownerless", "mine", "foreign"}

// Plan is one confinement case.
type Plan struct {
	Flavor   string `json:"flavor"` // plain | queue
	Op       string `json:"op"`
	Relation string `json:"relation"`
	// Relation2, when set, adds the declarations of a second relation (declarations combine: each check must hold
	// on one single declaration, not on properties collected from different ones).
	Relation2 string `json:"relation2,omitempty"`
	Owner     string `json:"owner"`    // state of the target
	Phase     int    `json:"phase"`    // phase of the target if it exists
	Fin       bool   `json:"fin"`      // target carries a finalizer
	NoOwner   bool   `json:"noowner"`  // create/modify with the no-owner option
	Explicit  int    `json:"explicit"` // teardown/destroy: 0 none, 1 explicit "" owner, 2 explicit foreign owner, 3 explicit own name
	ExpPhase  int    `json:"expphase"` // modify: 0 default 1 any 2 tearingDown
	Cached    bool   `json:"cached"`
	Noise     int    `json:"noise"` // extra unrelated declarations
	// Dyn (plain flavour): 0 inputs declared at registration; 1 registered without the inputs of the relation(s), which are
	// then declared through UpdateInputs before the attempt; 2 registered with additional strong inputs covering the
	// target, which are dropped through UpdateInputs (a pure shrink) before the attempt.
	Dyn int `json:"dyn,omitempty"`
}

const (
	me      = "me"
	foreign = "other"
	tt      = "TA" // the target type
	tid     = "a"
)

// Gen draws a random case.
func Gen(t *rapid.T) Plan {
	return Plan{
		Relation2: rapid.SampledFrom(append([]string{"", "", ""}, Relations...)).Draw(t, "relation2"),
		Flavor:    rapid.SampledFrom([]string{"plain", "queue"}).Draw(t, "flavor"),
		Op:        rapid.SampledFrom(Ops).Draw(t, "op"),
		Relation:  rapid.SampledFrom(Relations).Draw(t, "relation"),
		Owner:     rapid.SampledFrom(OwnerStates).Draw(t, "owner"),
		Phase:     rapid.SampledFrom([]int{0, 0, 1}).Draw(t, "phase"),
		Fin:       rapid.IntRange(0, 3).Draw(t, "fin") == 0,
		NoOwner:   rapid.IntRange(0, 3).Draw(t, "noowner") == 0,
		Explicit:  rapid.SampledFrom([]int{0, 0, 0, 1, 2, 3}).Draw(t, "explicit"),
		ExpPhase:  rapid.IntRange(0, 2).Draw(t, "expphase"),
		Cached:    rapid.Bool().Draw(t, "cached"),
		Noise:     rapid.IntRange(0, 3).Draw(t, "noise"),
		Dyn:       rapid.SampledFrom([]int{0, 0, 1, 2}).Draw(t, "dyn"),
	}
}

// Matrix enumerates the finite product operation x relation x owner state for both flavours, cached or not,
// with the default options.
func Matrix() []Plan {
	var out []Plan

	for _, fl := range []string{"plain", "queue"} {
		for _, c := range []bool{false, true} {
			for _, op := range Ops {
				for _, rel := range Relations {
					for _, ow := range OwnerStates {
						out = append(out, Plan{Flavor: fl, Op: op, Relation: rel, Owner: ow, Cached: c})
					}
				}
			}
		}
	}

	return out
}

// PairMatrix enumerates operation x unordered pair of distinct relations x {ownerless, foreign} x flavour (uncached).
func PairMatrix() []Plan {
	var out []Plan

	for _, fl := range []string{"plain", "queue"} {
		for _, op := range Ops {
			for i, r1 := range Relations {
				for _, r2 := range Relations[i+1:] {
					for _, ow := range []string{"ownerless", "foreign"} {
						out = append(out, Plan{Flavor: fl, Op: op, Relation: r1, Relation2: r2, Owner: ow})
					}
				}
			}
		}
	}

	return out
}

// DynMatrix enumerates operation x relation x {declared late, shrunk} for the plain flavour (target owned by nobody).
func DynMatrix() []Plan {
	var out []Plan

	for _, dyn := range []int{1, 2} {
		for _, op := range Ops {
			for _, rel := range Relations {
				out = append(out, Plan{Flavor: "plain", Op: op, Relation: rel, Owner: "ownerless", Dyn: dyn})
			}
		}
	}

	return out
}

// decl builds the declarations for the relation(s).
func decl(p Plan) (ins []sim.InSpec, outs []sim.OutSpec) {
	ins, outs = declRel(p, p.Relation)

	if p.Relation2 != "" && p.Relation2 != p.Relation {
		i2, o2 := declRel(p, p.Relation2)
		ins, outs = append(ins, i2...), append(outs, o2...)
	}

	q := p.Flavor == "queue"
	weak, strong := controller.InputWeak, controller.InputStrong

	if q {
		weak, strong = controller.InputQMappedDestroyReady, controller.InputQPrimary
	}

	// noise: declarations on other types
	if p.Noise >= 1 {
		outs = append(outs, sim.OutSpec{Typ: "TC", Kind: controller.OutputShared})
	}

	if p.Noise >= 2 {
		ins = append(ins, sim.InSpec{NS: "n1", Typ: "TB", Kind: strong})
	}

	if p.Noise >= 3 {
		ins = append(ins, sim.InSpec{NS: "n2", Typ: "TC", ID: tid, Kind: weak})
	}

	return ins, outs
}

func declRel(p Plan, rel string) (ins []sim.InSpec, outs []sim.OutSpec) {
	q := p.Flavor == "queue"
	weak, strong, dready := controller.InputWeak, controller.InputStrong, controller.InputDestroyReady

	if q {
		// queue flavour: no finalizer access = mapped-destroy-ready; finalizer access = primary
		weak, strong, dready = controller.InputQMappedDestroyReady, controller.InputQPrimary, controller.InputQMappedDestroyReady
	}

	switch rel {
	case "output-excl":
		outs = append(outs, sim.OutSpec{Typ: tt, Kind: controller.OutputExclusive})
	case "output-shared":
		outs = append(outs, sim.OutSpec{Typ: tt, Kind: controller.OutputShared})
	case "in-weak-kind":
		ins = append(ins, sim.InSpec{NS: "n1", Typ: tt, Kind: weak})
	case "in-weak-id":
		ins = append(ins, sim.InSpec{NS: "n1", Typ: tt, ID: tid, Kind: weak})
	case "in-weak-otherid":
		ins = append(ins, sim.InSpec{NS: "n1", Typ: tt, ID: "zz", Kind: weak})
	case "in-strong-kind":
		ins = append(ins, sim.InSpec{NS: "n1", Typ: tt, Kind: strong})
	case "in-strong-id":
		ins = append(ins, sim.InSpec{NS: "n1", Typ: tt, ID: tid, Kind: strong})
	case "in-strong-otherid":
		ins = append(ins, sim.InSpec{NS: "n1", Typ: tt, ID: "zz", Kind: strong})
	case "in-destroyready-kind":
		ins = append(ins, sim.InSpec{NS: "n1", Typ: tt, Kind: dready})
	case "in-strong-otherns":
		ins = append(ins, sim.InSpec{NS: "n2", Typ: tt, Kind: strong})
	case "in-mapped-kind":
		k := controller.InputStrong
		if q {
			k = controller.InputQMapped
		}

		ins = append(ins, sim.InSpec{NS: "n1", Typ: tt, Kind: k})
	case "unrelated":
	}

	return ins, outs
}

// access is the model written from the README / statement.
type access struct{ readGet, readList, write, finalizers bool }

func accessModel(ins []sim.InSpec, outs []sim.OutSpec) access {
	var a access

	for _, o := range outs {
		if o.Typ == tt {
			a.readGet, a.readList, a.write = true, true, true
		}
	}

	for _, i := range ins {
		if i.NS != "n1" || i.Typ != tt {
			continue
		}

		if i.ID == "" {
			a.readGet, a.readList = true, true
		} else if i.ID == tid {
			a.readGet = true
		}

		if (i.Kind == controller.InputStrong || i.Kind == controller.InputQPrimary || i.Kind == controller.InputQMapped) && (i.ID == "" || i.ID == tid) {
			a.finalizers = true
		}
	}

	return a
}

type rw interface {
	controller.Reader
	controller.UncachedReader
	controller.Writer
}

var errNoOutputTracker = errors.New("harness: this controller flavour has no output tracker")

type attemptResult struct {
	err    error
	got    resource.Resource
	list   *resource.List
	ctxErr bool
	ran    bool
}

func attempt(ctx context.Context, r rw, p Plan) (res attemptResult) {
	res.ran = true
	ptr := resource.NewMetadata("n1", tt, tid, resource.VersionUndefined)

	var dopts []controller.DeleteOption

	switch p.Explicit {
	case 1:
		dopts = append(dopts, controller.WithOwner(""))
	case 2:
		dopts = append(dopts, controller.WithOwner(foreign))
	case 3:
		dopts = append(dopts, controller.WithOwner(me))
	}

	var mopts []controller.ModifyOption

	switch p.ExpPhase {
	case 1:
		mopts = append(mopts, controller.WithExpectedPhaseAny())
	case 2:
		mopts = append(mopts, controller.WithExpectedPhase(resource.PhaseTearingDown))
	}

	if p.NoOwner {
		mopts = append(mopts, controller.WithModifyNoOwner())
	}

	switch p.Op {
	case "CleanupOutputs":
		// output tracking (plain controllers only): everything of the kind that this reconcile did not touch is removed
		ot, ok := r.(controller.OutputTracker)
		if !ok {
			res.err = errNoOutputTracker

			return res
		}

		ot.StartTrackingOutputs()
		res.err = ot.CleanupOutputs(ctx, ptr)
	case "Get":
		res.got, res.err = r.Get(ctx, ptr)
	case "GetUncached":
		res.got, res.err = r.GetUncached(ctx, ptr)
	case "List":
		l, err := r.List(ctx, ptr)
		res.list, res.err = &l, err
	case "ListUncached":
		l, err := r.ListUncached(ctx, ptr)
		res.list, res.err = &l, err
	case "ContextWithTeardown":
		c, err := r.ContextWithTeardown(ctx, ptr)
		res.err = err

		if err == nil {
			_ = c
		}
	case "Create":
		var copts []controller.CreateOption
		if p.NoOwner {
			copts = append(copts, controller.WithCreateNoOwner())
		}

		res.err = r.Create(ctx, hres.New("n1", tt, tid, "created"), copts...)
	case "Update":
		// a controller can only obtain the object through a read; build it from the store contents when readable,
		// otherwise from scratch (version undefined)
		obj := resource.Resource(hres.New("n1", tt, tid, "updated"))

		if g, err := r.Get(ctx, ptr); err == nil {
			obj = g
			obj.(*hres.R).SetValue("updated") //nolint:forcetypeassert
		}

		res.err = r.Update(ctx, obj)
	case "UpdateForged":
		// an object the controller did not read: built from scratch (as kept from an earlier incarnation of the
		// resource that the controller owned), carrying the controller's own name as owner and the current version
		obj := hres.New("n1", tt, tid, "forged")
		obj.Metadata().SetVersion(resource.VersionUndefined.Next())
		obj.Metadata().SetPhase(resource.Phase(p.Phase))

		if p.Fin {
			obj.Metadata().Finalizers().Add("held")
		}

		if err := obj.Metadata().SetOwner(me); err != nil {
			res.err = err

			return res
		}

		res.err = r.Update(ctx, obj)
	case "Modify":
		res.err = r.Modify(ctx, hres.New("n1", tt, tid, "new"), func(x resource.Resource) error {
			x.(*hres.R).SetValue("modified") //nolint:forcetypeassert

			return nil
		}, mopts...)
	case "ModifyWithResult":
		res.got, res.err = r.ModifyWithResult(ctx, hres.New("n1", tt, tid, "new"), func(x resource.Resource) error {
			x.(*hres.R).SetValue("modified") //nolint:forcetypeassert

			return nil
		}, mopts...)
	case "Teardown":
		_, res.err = r.Teardown(ctx, ptr, dopts...)
	case "Destroy":
		res.err = r.Destroy(ctx, ptr, dopts...)
	case "AddFinalizer":
		res.err = r.AddFinalizer(ctx, ptr, "confine")
	case "RemoveFinalizer":
		res.err = r.RemoveFinalizer(ctx, ptr, "held")
	}

	return res
}

// Run executes a case in a bubble.
func Run(p Plan) (v hk.Verdict) {
	synctest.Test(hk.T(), func(*testing.T) { v = runBubble(p) })

	return v
}

func snapshot(cur map[model.Key]*model.Res) string {
	var ks []string
	for _, r := range cur {
		ks = append(ks, r.String())
	}

	sort.Strings(ks)

	return fmt.Sprint(ks)
}

//nolint:gocyclo,gocognit,cyclop,maintidx
func runBubble(p Plan) (v hk.Verdict) {
	var cached []model.Key
	if p.Cached {
		cached = append(cached, model.Key{NS: "n1", Typ: tt})
	}

	w, err := sim.NewWorld(sim.WorldOptions{Cached: cached})
	if err != nil {
		v.Failf("harness: %v", err)

		return v
	}

	defer func() {
		if done, _ := w.Stop(); !done && v.Fail == "" {
			v.Failf("runtime did not stop")
		}
	}()

	// target and bystanders
	ext := w.Ext
	mk := func(ns, typ, id, owner string, phase int, fin bool) {
		r := hres.New(ns, typ, id, "init")
		r.Metadata().SetPhase(resource.Phase(phase))

		if fin {
			r.Metadata().Finalizers().Add("held")
		}

		_ = ext.Create(w.Ctx, r, state.WithCreateOwner(owner))
	}

	switch p.Owner {
	case "ownerless":
		mk("n1", tt, tid, "", p.Phase, p.Fin)
	case "mine":
		mk("n1", tt, tid, me, p.Phase, p.Fin)
	case "foreign":
		mk("n1", tt, tid, foreign, p.Phase, p.Fin)
	}

	mk("n1", tt, "bystander", foreign, 0, false)
	mk("n1", tt, "bystander0", "", 0, false) // owned by nobody: not the controller's either
	mk("n2", tt, tid, foreign, 0, false)
	mk("n1", "TB", tid, foreign, 0, false)

	ins, outs := decl(p)
	acc := accessModel(ins, outs)

	var res attemptResult

	done := make(chan struct{})
	once := false

	do := func(ctx context.Context, r rw) {
		if once {
			return
		}

		once = true
		res = attempt(ctx, r, p)

		close(done)
	}

	var regErr error

	dyn := 0
	if p.Flavor == "plain" {
		dyn = p.Dyn
	}

	var updErr error

	if p.Flavor == "plain" {
		regIns := ins

		switch dyn {
		case 1:
			// everything on the target type is declared later
			regIns = []sim.InSpec{}

			for _, i := range ins {
				if i.Typ != tt {
					regIns = append(regIns, i)
				}
			}
		case 2:
			regIns = append([]sim.InSpec{}, ins...)

			for _, extra := range []sim.InSpec{{NS: "n1", Typ: tt, Kind: controller.InputStrong}, {NS: "n1", Typ: tt, ID: tid, Kind: controller.InputStrong}} {
				clash := false

				for _, i := range ins {
					if i.NS == extra.NS && i.Typ == extra.Typ && i.ID == extra.ID {
						clash = true
					}
				}

				if !clash {
					regIns = append(regIns, extra)
				}
			}
		}

		regErr = w.RT.RegisterController(&sim.PlainProbe{W: w, NameStr: me, Ins: nil, Outs: outs, DeclIns: regIns,
			OnWake: func(ctx context.Context, r controller.Runtime, _ *sim.PlainProbe, _ int) {
				if dyn != 0 && !once {
					var cins []controller.Input
					for _, i := range ins {
						cins = append(cins, i.ToInput())
					}

					updErr = r.UpdateInputs(cins)
				}

				do(ctx, r)
			}})
	} else {
		regErr = w.RT.RegisterQController(&hookProbe{name: me, ins: ins, outs: outs, hook: func(ctx context.Context, r controller.QRuntime) { do(ctx, r) }})
	}

	if regErr != nil && p.Relation2 != "" && p.Relation2 != p.Relation {
		// the two sets of declarations conflict with each other (C17's subject): nothing to check here
		v.Label("pair-rejected-at-registration")
		v.Outcome = "registration rejected: " + regErr.Error()

		return v
	}

	if regErr != nil {
		v.Failf("harness: registration of %+v / %+v rejected: %v", ins, outs, regErr)

		return v
	}

	_, before := w.Snapshot()
	nBefore := w.NCommits()

	w.Run()
	w.Quiesce(5)

	select {
	case <-done:
	default:
		v.Failf("harness: the attempt never ran")

		return v
	}

	if updErr != nil {
		if p.Relation2 != "" && p.Relation2 != p.Relation {
			v.Label("pair-rejected-at-update")
			v.Outcome = "UpdateInputs rejected: " + updErr.Error()

			return v
		}

		v.Failf("harness: UpdateInputs(%+v) rejected: %v", ins, updErr)

		return v
	}

	if dyn != 0 {
		v.Label(fmt.Sprintf("inputs-changed-through-UpdateInputs:%d", dyn))
	}

	log, after := w.Snapshot()
	changed := snapshot(before) != snapshot(after)
	tk := model.Key{NS: "n1", Typ: tt, ID: tid}
	tgt := before[tk]

	desc := fmt.Sprintf("%s %s on %s+%q target %s (explicit=%d noowner=%v expphase=%d cached=%v)", p.Flavor, p.Op, p.Relation, p.Relation2, tgt, p.Explicit, p.NoOwner, p.ExpPhase, p.Cached)

	classified := func(err error) bool {
		c := model.Classify(err)

		return c != model.OK && c != model.Other
	}

	isRead := p.Op == "Get" || p.Op == "GetUncached" || p.Op == "List" || p.Op == "ListUncached" || p.Op == "ContextWithTeardown"
	isFin := p.Op == "AddFinalizer" || p.Op == "RemoveFinalizer"

	allowed := acc.write
	if isRead {
		allowed = acc.readGet
		if p.Op == "List" || p.Op == "ListUncached" {
			allowed = acc.readList
		}
	} else if isFin {
		allowed = acc.finalizers
	}

	if p.Relation2 != "" && p.Relation2 != p.Relation {
		v.Label("pair-of-relations")

		// the combination matters when the two relations alone give different answers for this operation
		pick := func(a access) bool {
			switch {
			case p.Op == "List" || p.Op == "ListUncached":
				return a.readList
			case isRead:
				return a.readGet
			case isFin:
				return a.finalizers
			}

			return a.write
		}

		i1, o1 := declRel(p, p.Relation)
		i2, o2 := declRel(p, p.Relation2)

		if pick(accessModel(i1, o1)) != pick(accessModel(i2, o2)) {
			v.NonTrivial = true

			v.Label("pair-with-different-answers")
		}
	}

	if p.Op == "CleanupOutputs" {
		if errors.Is(res.err, errNoOutputTracker) {
			v.Label("no-output-tracker")
			v.Outcome = "not applicable"

			return v
		}

		// whatever the declarations: only resources the controller owns may be affected
		for _, e := range log[nBefore:] {
			if b := before[e.Commit.New.Key]; b == nil || b.Owner != me {
				v.Failf("%s: output cleanup changed %s, which is not owned by the controller (before: %s)", desc, e.Commit.New, b)
			}
		}

		switch {
		case !acc.readList:
			if res.err == nil || classified(res.err) || changed {
				v.Failf("%s: the kind is not readable by the declarations %+v / %+v, yet output cleanup returned %v (changed=%v)", desc, ins, outs, res.err, changed)
			}
		case !acc.write:
			if changed {
				v.Failf("%s: the kind is not an output, yet output cleanup changed the state: %s -> %s", desc, snapshot(before), snapshot(after))
			}
		default:
			if tgt != nil && tgt.Owner == me && !p.Fin && after[tk] != nil && res.err == nil {
				v.Failf("%s: output cleanup left the untouched output %s behind", desc, after[tk])
			}

			v.NonTrivial = true

			v.Label("output-cleanup-on-own-kind")
		}

		v.Outcome = fmt.Sprintf("cleanup err=%v changed=%v", res.err, changed)

		return v
	}

	// commits outside the target key are never acceptable
	for _, e := range log[nBefore:] {
		if e.Commit.New.Key != tk {
			v.Failf("%s: changed another resource %s", desc, e.Commit.New)
		}
	}

	switch {
	case !allowed:
		if res.err == nil {
			v.Failf("%s: not permitted by the declarations %+v / %+v, yet it succeeded", desc, ins, outs)
		} else if classified(res.err) {
			// a store-level error means the request reached the store
			v.Failf("%s: not permitted by the declarations, yet the request reached the store (error %v)", desc, res.err)
		}

		if changed {
			v.Failf("%s: rejected operation changed the state: %s -> %s", desc, snapshot(before), snapshot(after))
		}

		v.Label("denied")

		if p.Relation != "unrelated" {
			v.NonTrivial = true

			v.Label("related-but-denied")
		}
	default:
		if res.err != nil {
			if !classified(res.err) {
				v.Failf("%s: permitted by the declarations %+v / %+v but refused with an access error: %v", desc, ins, outs, res.err)
			}

			if changed {
				v.Failf("%s: failed (%v) but the state changed: %s -> %s", desc, res.err, snapshot(before), snapshot(after))
			}

			v.Label("allowed-store-error")
		} else {
			v.Label("allowed-ok")
		}

		if p.Relation == "in-weak-id" || p.Relation == "in-strong-id" {
			v.NonTrivial = true

			v.Label("allowed-by-id-declaration")
		}

		// reads return the store's value
		if res.err == nil && (p.Op == "Get" || p.Op == "GetUncached") {
			if d := model.Diff(res.got, tgt); d != "" {
				v.Failf("%s: read returned %s", desc, d)
			}
		}

		if res.err == nil && (p.Op == "List" || p.Op == "ListUncached") {
			n := 0

			for k := range before {
				if k.NS == "n1" && k.Typ == tt {
					n++
				}
			}

			if len(res.list.Items) != n {
				v.Failf("%s: list returned %d items, the kind has %d", desc, len(res.list.Items), n)
			}
		}

		// ownership
		now := after[tk]

		if !isRead && !isFin {
			usedOwner := me

			switch {
			case (p.Op == "Create" || p.Op == "Modify" || p.Op == "ModifyWithResult") && p.NoOwner:
				usedOwner = ""
			case (p.Op == "Teardown" || p.Op == "Destroy") && p.Explicit == 1:
				usedOwner = ""
			case (p.Op == "Teardown" || p.Op == "Destroy") && p.Explicit == 2:
				usedOwner = foreign
			}

			if tgt != nil && tgt.Owner != usedOwner {
				// not the owner (and no explicit naming of that owner): nothing may change
				if res.err == nil && !(p.Op == "Teardown" && tgt.Phase == 1) {
					v.Failf("%s: target is owned by %q, the operation acts as %q, yet it succeeded", desc, tgt.Owner, usedOwner)
				}

				if changed {
					v.Failf("%s: target owned by %q changed although the operation acts as %q", desc, tgt.Owner, usedOwner)
				}

				v.NonTrivial = true

				v.Label("denied-only-by-ownership")
			}

			if tgt == nil && now != nil && now.Owner != usedOwner {
				v.Failf("%s: created resource carries owner %q, want %q", desc, now.Owner, usedOwner)
			}

			if tgt != nil && now != nil && now.Owner != tgt.Owner {
				v.Failf("%s: owner of the target changed from %q to %q", desc, tgt.Owner, now.Owner)
			}
		}
	}

	v.Outcome = fmt.Sprintf("allowed=%v err=%v changed=%v", allowed, res.err, changed)

	return v
}

// hookProbe is a QController whose run hook performs the attempt.
type hookProbe struct {
	name string
	ins  []sim.InSpec
	outs []sim.OutSpec
	hook func(context.Context, controller.QRuntime)
}

func (h *hookProbe) Name() string { return h.name }

func (h *hookProbe) Settings() controller.QSettings {
	s := controller.QSettings{Concurrency: optional.Some(uint(1))}

	for _, i := range h.ins {
		s.Inputs = append(s.Inputs, i.ToInput())
	}

	for _, o := range h.outs {
		s.Outputs = append(s.Outputs, controller.Output{Type: o.Typ, Kind: o.Kind})
	}

	s.RunHook = func(ctx context.Context, _ *zap.Logger, r controller.QRuntime) error {
		h.hook(ctx, r)
		<-ctx.Done()

		return nil
	}

	return s
}

func (h *hookProbe) Reconcile(context.Context, *zap.Logger, controller.QRuntime, resource.Pointer) error {
	return nil
}

func (h *hookProbe) MapInput(context.Context, *zap.Logger, controller.QRuntime, controller.ReducedResourceMetadata) ([]resource.Pointer, error) {
	return nil, nil
}

package c08

import (
	"testing"

	"verifharness/hk"
)

func TestMain(m *testing.M) { hk.Main(m, "C08") }

func TestRandom(t *testing.T) {
	hk.RunSub(t, hk.Sub[Plan]{Name: "s3/random", Quick: 3000, Thorough: 30000, Gen: Gen, Run: Run, Journal: true})
}

// TestMatrix enumerates operation x relation x owner state x flavour x cached completely (default options).
func TestMatrix(t *testing.T) {
	m := Matrix()

	if hk.Tier() == "quick" {
		// stratified sample: every third element, offset by the seed
		var s []Plan

		for i := hk.Seed() % 3; i < len(m); i += 3 {
			s = append(s, m[i])
		}

		hk.RunEnum(t, "s3/matrix-sample", s, Run)

		var ps []Plan

		for pm, i := PairMatrix(), hk.Seed()%4; i < len(pm); i += 4 {
			ps = append(ps, pm[i])
		}

		hk.RunEnum(t, "s3/pair-matrix-sample", ps, Run)
		hk.RunEnum(t, "s3/dyn-matrix", DynMatrix(), Run)

		return
	}

	if hk.Shard() != 0 {
		return
	}

	hk.RunEnum(t, "s3/matrix", m, Run)
	hk.RunEnum(t, "s3/pair-matrix", PairMatrix(), Run)
	hk.RunEnum(t, "s3/dyn-matrix", DynMatrix(), Run)
}

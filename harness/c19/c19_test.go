package c19

import (
	"testing"

	"verifharness/hk"
)

func TestMain(m *testing.M) { hk.Main(m, "C19") }

func TestS1(t *testing.T) {
	hk.RunSub(t, hk.Sub[Plan]{Name: "s1/isolation", Quick: 3000, Thorough: 15000, Gen: Gen, Run: Run, Journal: true})
}

// Package c19 checks C19: objects passed to / returned by the state never alias the store; metadata copies are independent.
package c19

import (
	"fmt"
	"reflect"
	"regexp"
	"sort"
	"strconv"
	"sync"
	"testing"
	"testing/synctest"

	"pgregory.net/rapid"

	"github.com/cosi-project/runtime/pkg/resource"
	"github.com/cosi-project/runtime/pkg/resource/kvutils"
	"github.com/cosi-project/runtime/pkg/state"
	"github.com/cosi-project/runtime/pkg/state/protobuf/server"

	"verifharness/hk"
	"verifharness/hres"
	"verifharness/model"
	"verifharness/sim"
)

// Op is one step.
type Op struct {
	K    string `json:"k"`    // create update uwc modify get list mutate copy
	ID   int    `json:"id"`   // resource id index
	Site int    `json:"site"` // 0 direct 1 cached 2 remote 3 remote without unmarshal
	Idx  int    `json:"idx"`  // pool index (modulo)
	Mut  int    `json:"mut"`  // mutation kind
	Arg  int    `json:"arg"`
}

// Plan is a sequence.
type Plan struct {
	Ops []Op `json:"ops"`
	// Proto: the run uses resources whose spec is a generated protobuf message behind protobuf.ResourceSpec (type TP)
	// instead of the hand-written spec type; every third value written is the empty message.
	Proto bool `json:"proto,omitempty"`
}

var ids = []string{"a", "b", "c"}

var finPool = []string{"f1", "f2", "f3", "f4", "f5", "f6"}

// Gen draws a plan.
func Gen(t *rapid.T) Plan {
	return Plan{Proto: rapid.IntRange(0, 3).Draw(t, "proto") == 0, Ops: rapid.SliceOfN(rapid.Custom(func(t *rapid.T) Op {
		return Op{
			K:    rapid.SampledFrom([]string{"create", "create", "update", "uwc", "modify", "get", "get", "get", "list", "list", "mutate", "mutate", "mutate", "mutate", "mutate", "mutate", "mutate", "copy", "copy", "copy"}).Draw(t, "k"),
			ID:   rapid.IntRange(0, 2).Draw(t, "id"),
			Site: rapid.IntRange(0, 3).Draw(t, "site"),
			Idx:  rapid.IntRange(0, 30).Draw(t, "idx"),
			Mut:  rapid.SampledFrom([]int{0, 1, 2, 3, 4, 5, 5, 5, 5, 6, 6, 7, 8, 9, 10, 11}).Draw(t, "mut"),
			Arg:  rapid.IntRange(0, 5).Draw(t, "arg"),
		}
	}), 3, 50).Draw(t, "ops")}
}

type held struct {
	obj    resource.Resource
	snap   hres.Snap
	origin string
	group  string // key of the underlying value the object was obtained from (for the non-triviality rule)
}

func snapEq(a, b hres.Snap) bool {
	a.Created, b.Created = 0, 0

	return reflect.DeepEqual(a, b)
}

// applyMut mutates the object through the public API and applies the same change to the expected snapshot.
func applyMut(o resource.Resource, s *hres.Snap, mut, arg int) string {
	md := o.Metadata()
	key, val := hres.LabelKeys[arg%3], "m"+strconv.Itoa(arg)

	setMap := func(m *map[string]string, k, v string) {
		if *m == nil {
			*m = map[string]string{}
		}

		(*m)[k] = v
	}

	delMap := func(m *map[string]string, k string) {
		delete(*m, k)

		if len(*m) == 0 {
			*m = nil
		}
	}

	switch mut {
	case 0:
		md.Labels().Set(key, val)
		setMap(&s.Labels, key, val)

		return "labels.set"
	case 1:
		md.Labels().Delete(key)
		delMap(&s.Labels, key)

		return "labels.delete"
	case 2:
		md.Labels().Do(func(t kvutils.TempKV) {
			t.Set(key, val)
			t.Delete(hres.LabelKeys[(arg+1)%3])
		})
		setMap(&s.Labels, key, val)
		delMap(&s.Labels, hres.LabelKeys[(arg+1)%3])

		return "labels.do"
	case 3:
		md.Annotations().Set(key, val)
		setMap(&s.Annos, key, val)

		return "annotations.set"
	case 4:
		md.Annotations().Delete(key)
		delMap(&s.Annos, key)

		return "annotations.delete"
	case 5:
		f := finPool[arg%len(finPool)]
		md.Finalizers().Add(f)

		if !contains(s.Fins, f) {
			s.Fins = append(s.Fins, f)
			sort.Strings(s.Fins)
		}

		return "finalizers.add"
	case 6:
		f := finPool[arg%len(finPool)]
		md.Finalizers().Remove(f)

		var n []string

		for _, x := range s.Fins {
			if x != f {
				n = append(n, x)
			}
		}

		s.Fins = n

		return "finalizers.remove"
	case 7:
		md.Finalizers().Set(resource.Finalizers{"fs1", "fs2"})
		s.Fins = []string{"fs1", "fs2"}

		return "finalizers.set"
	case 8:
		ph := resource.Phase(arg % 2)
		md.SetPhase(ph)
		s.Phase = ph.String()

		return "setphase"
	case 9:
		md.SetVersion(md.Version().Next())

		v := md.Version().String()
		s.Ver = v

		return "setversion"
	case 10:
		if md.Owner() == "" {
			_ = md.SetOwner("mutant")
			s.Owner = "mutant"
		}

		return "setowner"
	default:
		switch x := o.(type) {
		case *hres.R:
			x.SetValue(val)
			s.Val = val
		case *hres.A:
			x.TypedSpec().Value = val
			s.Val = val
		case *hres.P:
			x.TypedSpec().Value.Key = val
			s.Val = val
		}

		return "spec"
	}
}

func contains(s []string, v string) bool {
	for _, x := range s {
		if x == v {
			return true
		}
	}

	return false
}

// Run executes the plan in a bubble (needed for the runtime cache site).
func Run(p Plan) (v hk.Verdict) {
	synctest.Test(hk.T(), func(*testing.T) { v = runBubble(p) })

	return v
}

//nolint:gocyclo,gocognit,cyclop,maintidx
func runBubble(p Plan) (v hk.Verdict) {
	typ := "TA"
	newRes := func(id, val string, _ int) resource.Resource { return hres.New("n1", "TA", id, val) }

	if p.Proto {
		typ = hres.TypeTP
		newRes = func(id, val string, n int) resource.Resource {
			if n%3 == 0 {
				val = ""
			}

			return hres.NewP("n1", id, val)
		}
	}

	w, err := sim.NewWorld(sim.WorldOptions{Cached: []model.Key{{NS: "n1", Typ: typ}}})
	if err != nil {
		v.Failf("harness: %v", err)

		return v
	}

	pair, err := sim.NewGRPCPair(server.NewState(w.Inner), nil)
	if err != nil {
		v.Failf("harness: %v", err)

		return v
	}

	defer func() {
		pair.Close()

		if done, _ := w.Stop(); !done && v.Fail == "" {
			v.Failf("runtime did not stop")
		}
	}()

	ctx := w.Ctx
	kind := resource.NewMetadata("n1", typ, "", resource.VersionUndefined)

	w.Run()
	w.Quiesce(2)

	direct := state.WrapCore(w.Inner)
	cached := w.RT.CachedState()
	remote := state.WrapCore(pair.Adapter)

	// watch replica
	var (
		rmu     sync.Mutex
		replica = map[string]hres.Snap{}
	)

	wch := make(chan state.Event)
	if err := w.Inner.WatchKind(ctx, kind, wch, state.WithBootstrapContents(true)); err != nil {
		v.Failf("harness: %v", err)

		return v
	}

	go func() {
		for {
			select {
			case <-ctx.Done():
				return
			case e := <-wch:
				rmu.Lock()
				switch e.Type {
				case state.Created, state.Updated:
					replica[e.Resource.Metadata().ID()] = hres.SnapOf(e.Resource)
				case state.Destroyed:
					delete(replica, e.Resource.Metadata().ID())
				case state.Bootstrapped, state.Errored, state.Noop:
				}
				rmu.Unlock()
			}
		}
	}()

	stored := map[string]hres.Snap{} // model of the store
	var pool []*held

	add := func(o resource.Resource, origin, group string) {
		pool = append(pool, &held{obj: o, snap: hres.SnapOf(o), origin: origin, group: group})
	}

	checkAll := func(step int, what string) bool {
		synctest.Wait()

		for _, id := range ids {
			want, exists := stored[id]

			g, err := w.Inner.Get(ctx, resource.NewMetadata("n1", typ, id, resource.VersionUndefined))
			if exists != (err == nil) {
				v.Failf("step %d (%s): store has %s=%v, model exists=%v", step, what, id, err == nil, exists)

				return false
			}

			if err == nil && !snapEq(hres.SnapOf(g), want) {
				v.Failf("step %d (%s): the store's value of %s changed: now %+v, expected %+v", step, what, id, hres.SnapOf(g), want)

				return false
			}
		}

		for name, st := range map[string]state.CoreState{"direct": w.Inner, "cached": cached, "remote": pair.Adapter} {
			l, err := st.List(ctx, kind)
			if err != nil {
				v.Failf("step %d (%s): %s List: %v", step, what, name, err)

				return false
			}

			if len(l.Items) != len(stored) {
				v.Failf("step %d (%s): %s List has %d items, model %d", step, what, name, len(l.Items), len(stored))

				return false
			}

			for _, it := range l.Items {
				if want := stored[it.Metadata().ID()]; !snapEq(hres.SnapOf(it), want) {
					v.Failf("step %d (%s): %s reader observes %+v for %s, expected %+v", step, what, name, hres.SnapOf(it), it.Metadata().ID(), want)

					return false
				}
			}
		}

		rmu.Lock()
		defer rmu.Unlock()

		if len(replica) != len(stored) {
			v.Failf("step %d (%s): watch replica has %d items, model %d", step, what, len(replica), len(stored))

			return false
		}

		for id, want := range stored {
			if !snapEq(replica[id], want) {
				v.Failf("step %d (%s): watcher's view of %s is %+v, expected %+v", step, what, id, replica[id], want)

				return false
			}
		}

		for i, h := range pool {
			if got := hres.SnapOf(h.obj); !snapEq(got, h.snap) {
				v.Failf("step %d (%s): held object #%d (%s) changed behind its holder's back: now %+v, expected %+v", step, what, i, h.origin, got, h.snap)

				return false
			}
		}

		return true
	}

	sites := []struct {
		name string
		st   state.CoreState
	}{{"direct", w.Inner}, {"cached", cached}, {"remote", pair.Adapter}, {"remote-raw", pair.Adapter}}

	for i, op := range p.Ops {
		id := ids[op.ID]
		ptr := resource.NewMetadata("n1", typ, id, resource.VersionUndefined)
		what := fmt.Sprintf("%+v", op)

		switch op.K {
		case "create":
			o := newRes(id, "c"+strconv.Itoa(i), i)
			o.Metadata().Labels().Set("k1", "init")
			o.Metadata().Finalizers().Add("f1")
			o.Metadata().Finalizers().Add("f2")
			o.Metadata().Finalizers().Add("f3")

			st := direct
			if op.Site >= 2 {
				st = remote
			}

			if st.Create(ctx, o) == nil {
				stored[id] = hres.SnapOf(o)
				add(o, "passed to Create", id+"@"+stored[id].Ver)
			}
		case "update":
			if len(pool) == 0 {
				continue
			}

			h := pool[op.Idx%len(pool)]
			if h.obj.Metadata().Type() != typ {
				continue
			}

			o := h.obj.DeepCopy()

			st := direct
			if op.Site >= 2 {
				st = remote
			}

			if st.Update(ctx, o, state.WithUpdateOwner(o.Metadata().Owner()), state.WithExpectedPhaseAny()) == nil {
				stored[o.Metadata().ID()] = hres.SnapOf(o)
				add(o, "passed to Update", o.Metadata().ID()+"@"+o.Metadata().Version().String())
			}
		case "uwc", "modify":
			st := direct
			if op.Site >= 2 {
				st = remote
			}

			var (
				r   resource.Resource
				err error
			)

			mutator := func(x resource.Resource) error {
				x.Metadata().Labels().Set("k2", "w"+strconv.Itoa(i))

				return nil
			}

			if op.K == "uwc" {
				r, err = st.UpdateWithConflicts(ctx, ptr, mutator, state.WithExpectedPhaseAny(), state.WithUpdateOwner(stored[id].Owner))
			} else {
				r, err = st.ModifyWithResult(ctx, newRes(id, "mod"+strconv.Itoa(i), i), mutator, state.WithExpectedPhaseAny(), state.WithUpdateOwner(stored[id].Owner))
			}

			if err == nil {
				stored[id] = hres.SnapOf(r)
				add(r, "returned by "+op.K, id+"@"+stored[id].Ver)
			}
		case "get":
			s := sites[op.Site]

			var gopts []state.GetOption
			if s.name == "remote-raw" {
				gopts = append(gopts, state.WithGetUnmarshalOptions(state.WithSkipProtobufUnmarshal()))
			}

			if r, err := s.st.Get(ctx, ptr, gopts...); err == nil {
				add(r, "returned by "+s.name+" Get", id+"@"+r.Metadata().Version().String())
			}
		case "list":
			s := sites[op.Site%3]

			// plain, ID-filtered and label-filtered lists (the filtered paths build their results separately)
			var lopts []state.ListOption

			switch op.Arg % 3 {
			case 1:
				lopts = append(lopts, state.WithIDQuery(resource.IDRegexpMatch(regexp.MustCompile("^[a-z]"))))
			case 2:
				lopts = append(lopts, state.WithLabelQuery(resource.LabelExists("k1")), state.WithLabelQuery(resource.LabelExists("k2")))
			}

			if l, err := s.st.List(ctx, kind, lopts...); err == nil {
				for _, it := range l.Items {
					add(it, "returned by "+s.name+" List"+[]string{"", " (ID query)", " (label query)"}[op.Arg%3], it.Metadata().ID()+"@"+it.Metadata().Version().String())
				}
			}
		case "mutate":
			if len(pool) == 0 {
				continue
			}

			h := pool[op.Idx%len(pool)]
			what = applyMut(h.obj, &h.snap, op.Mut, op.Arg) + " on held object #" + strconv.Itoa(op.Idx%len(pool)) + " (" + h.origin + ")"

			// the mutation must have taken effect on the object itself
			if got := hres.SnapOf(h.obj); !snapEq(got, h.snap) {
				v.Failf("step %d (%s): the object does not show the change: %+v, expected %+v", i, what, got, h.snap)

				return v
			}

			others := 0

			for _, o := range pool {
				if o != h && o.group == h.group {
					others++
				}
			}

			if _, inStore := stored[h.snap.ID]; h.origin != "copy" && (others > 0 || inStore) {
				v.NonTrivial = true

				v.Label("mutated-shared-value")
			}
		case "copy":
			if len(pool) == 0 {
				continue
			}

			h := pool[op.Idx%len(pool)]

			if op.Arg%2 == 0 {
				add(h.obj.DeepCopy(), "copy", h.group)
			} else {
				// metadata Copy() into a new resource
				if p.Proto {
					add(hres.NewPMD(h.obj.Metadata().Copy(), hres.Value(h.obj)), "copy", h.group)
				} else {
					add(hres.NewMD(h.obj.Metadata().Copy(), hres.Value(h.obj)), "copy", h.group)
				}
			}

			v.Label("copy")
		}

		if !checkAll(i, what) {
			return v
		}
	}

	v.Outcome = fmt.Sprintf("%d ops, %d held objects", len(p.Ops), len(pool))

	return v
}

package c11

import (
	"context"
	"testing"
	"testing/synctest"
	"time"

	"google.golang.org/grpc"
	"google.golang.org/grpc/metadata"

	"github.com/cosi-project/runtime/api/v1alpha1"
	"github.com/cosi-project/runtime/pkg/state/protobuf/server"

	"verifharness/hres"
	"verifharness/sim"
)

type fakeStream struct {
	grpc.ServerStream
	ctx context.Context //nolint:containedctx
	n   int
}

func (f *fakeStream) Context() context.Context     { return f.ctx }
func (f *fakeStream) SetHeader(metadata.MD) error  { return nil }
func (f *fakeStream) SendHeader(metadata.MD) error { return nil }
func (f *fakeStream) SetTrailer(metadata.MD)       {}
func (f *fakeStream) SendMsg(any) error            { f.n++; return nil }
func (f *fakeStream) RecvMsg(any) error            { return nil }

type listStream struct{ *fakeStream }

func (l listStream) Send(*v1alpha1.ListResponse) error { l.n++; return nil }

type watchStream struct{ *fakeStream }

func (w watchStream) Send(*v1alpha1.WatchResponse) error { w.n++; return nil }

// FuzzRequest decodes arbitrary bytes into each request type (vtprotobuf decoder, as the server's codec does) and
// hands the message to the handler: a response or an error, never a panic.
func FuzzRequest(f *testing.F) {
	seed := func(kind uint8, m interface{ MarshalVT() ([]byte, error) }) {
		b, err := m.MarshalVT()
		if err == nil {
			f.Add(kind, b)
		}
	}

	for _, r := range []Req{
		{K: "get", NS: "n1", Typ: "TA", ID: "a"},
		{K: "create", NS: "n1", Typ: "TA", ID: "z", Version: "undefined", Phase: "running"},
		{K: "update", NS: "n1", Typ: "TA", ID: "a", Version: "1", Phase: "running", NilOptions: true},
		{K: "list", NS: "n1", Typ: "TA", Terms: []RTerm{{Key: "k1", Op: 1}}, IDRegex: ptr("(")},
		{K: "watch", NS: "n1", Typ: "TA", Tail: -1, HasBM: true, Bookmark: []byte{1, 2, 3}, BootCont: true, HasID: true, ID: "a"},
	} {
		switch r.K {
		case "get":
			seed(0, &v1alpha1.GetRequest{Namespace: r.NS, Type: r.Typ, Id: r.ID})
		case "create":
			seed(2, &v1alpha1.CreateRequest{Resource: r.resource()})
		case "update":
			seed(3, &v1alpha1.UpdateRequest{NewResource: r.resource()})
		case "list":
			seed(1, &v1alpha1.ListRequest{Namespace: r.NS, Type: r.Typ, Options: &v1alpha1.ListOptions{LabelQuery: r.labelQueries(), IdQuery: r.idQuery()}})
		case "watch":
			seed(7, &v1alpha1.WatchRequest{Namespace: r.NS, Type: r.Typ, Id: ptr(r.ID), Options: &v1alpha1.WatchOptions{TailEvents: r.Tail, StartFromBookmark: r.Bookmark, BootstrapContents: true}})
		}
	}

	f.Add(uint8(3), []byte{0x12, 0x00})
	f.Add(uint8(7), []byte{0x22, 0x02, 0x10, 0x7f})

	f.Fuzz(func(t *testing.T, kind uint8, data []byte) {
		synctest.Test(t, func(t *testing.T) {
			ctx, cancel := context.WithTimeout(context.Background(), time.Second)
			defer func() {
				cancel()
				synctest.Wait()
			}()

			core := sim.NewNamespaced()
			_ = core.Create(ctx, hres.New("n1", "TA", "a", "x"))
			srv := server.NewState(core)

			defer func() {
				if r := recover(); r != nil {
					t.Fatalf("handler %d panicked on a decodable request: %v", kind%8, r)
				}
			}()

			switch kind % 8 {
			case 0:
				m := &v1alpha1.GetRequest{}
				if m.UnmarshalVT(data) == nil {
					_, _ = srv.Get(ctx, m)
				}
			case 1:
				m := &v1alpha1.ListRequest{}
				if m.UnmarshalVT(data) == nil {
					_ = srv.List(m, listStream{&fakeStream{ctx: ctx}})
				}
			case 2:
				m := &v1alpha1.CreateRequest{}
				if m.UnmarshalVT(data) == nil {
					_, _ = srv.Create(ctx, m)
				}
			case 3:
				m := &v1alpha1.UpdateRequest{}
				if m.UnmarshalVT(data) == nil {
					_, _ = srv.Update(ctx, m)
				}
			case 4:
				m := &v1alpha1.DestroyRequest{}
				if m.UnmarshalVT(data) == nil {
					_, _ = srv.Destroy(ctx, m)
				}
			case 5:
				m := &v1alpha1.TeardownRequest{}
				if m.UnmarshalVT(data) == nil {
					_, _ = srv.Teardown(ctx, m)
				}
			case 6:
				m := &v1alpha1.TeardownAndDestroyRequest{}
				if m.UnmarshalVT(data) == nil {
					_, _ = srv.TeardownAndDestroy(ctx, m)
				}
			case 7:
				m := &v1alpha1.WatchRequest{}
				if m.UnmarshalVT(data) == nil {
					_ = srv.Watch(m, watchStream{&fakeStream{ctx: ctx}})
				}
			}
		})
	})
}

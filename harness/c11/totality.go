package c11

import (
	"context"
	"fmt"
	"testing"
	"testing/synctest"
	"time"

	"google.golang.org/grpc/status"
	"google.golang.org/protobuf/types/known/timestamppb"
	"pgregory.net/rapid"

	"github.com/cosi-project/runtime/api/v1alpha1"
	"github.com/cosi-project/runtime/pkg/resource"
	"github.com/cosi-project/runtime/pkg/state"
	"github.com/cosi-project/runtime/pkg/state/protobuf/server"

	"verifharness/hk"
	"verifharness/hres"
	"verifharness/sim"
)

// Req is a plain-data description of a (possibly malformed) wire request.
type Req struct {
	K string `json:"k"` // get list create update destroy teardown tad watch

	NS  string `json:"ns"`
	Typ string `json:"typ"`
	ID  string `json:"id"`

	NilOptions bool   `json:"niloptions"`
	Owner      string `json:"owner"`

	// resource holes
	NilResource bool   `json:"nilresource"`
	NilMetadata bool   `json:"nilmetadata"`
	NilSpec     bool   `json:"nilspec"`
	Version     string `json:"version"`
	Phase       string `json:"phase"`
	MdOwner     string `json:"mdowner"`
	NoTimes     bool   `json:"notimes"`
	Spec        []byte `json:"spec"`
	Yaml        string `json:"yaml"`

	ExpPhase *string `json:"expphase"`

	// queries
	Terms   []RTerm `json:"terms"`
	IDRegex *string `json:"idregex"`

	// watch
	HasID    bool   `json:"hasid"`
	Tail     int32  `json:"tail"`
	Bookmark []byte `json:"bookmark"`
	HasBM    bool   `json:"hasbm"`
	BootCont bool   `json:"bootcont"`
	BootBM   bool   `json:"bootbm"`
	Agg      bool   `json:"agg"`
	APIVer   int32  `json:"apiver"`
}

// RTerm is a raw label term.
type RTerm struct {
	Key    string   `json:"key"`
	Op     int32    `json:"op"`
	Values []string `json:"values"`
	Invert bool     `json:"invert"`
}

// TPlan is a list of requests sent over one connection.
type TPlan struct {
	Reqs []Req `json:"reqs"`
}

func ptr[T any](v T) *T { return &v }

func genReq(t *rapid.T) Req {
	r := Req{
		K:           rapid.SampledFrom([]string{"get", "list", "list", "create", "create", "update", "update", "destroy", "teardown", "tad", "watch", "watch", "watch"}).Draw(t, "k"),
		NS:          rapid.SampledFrom([]string{"n1", "n1", "", "n2"}).Draw(t, "ns"),
		Typ:         rapid.SampledFrom([]string{"TA", "TA", "TB", "", "unregistered"}).Draw(t, "typ"),
		ID:          rapid.SampledFrom([]string{"a", "a", "b", "", "held"}).Draw(t, "id"),
		NilOptions:  rapid.IntRange(0, 3).Draw(t, "nilopt") == 0,
		Owner:       rapid.SampledFrom([]string{"", "", "o1"}).Draw(t, "owner"),
		NilResource: rapid.IntRange(0, 7).Draw(t, "nilres") == 0,
		NilMetadata: rapid.IntRange(0, 7).Draw(t, "nilmd") == 0,
		NilSpec:     rapid.IntRange(0, 5).Draw(t, "nilspec") == 0,
		Version:     rapid.SampledFrom([]string{"undefined", "1", "1", "2", "0", "-1", "abc", "", "18446744073709551615", "9223372036854775808"}).Draw(t, "version"),
		Phase:       rapid.SampledFrom([]string{"running", "running", "tearingDown", "", "RUNNING", "bogus"}).Draw(t, "phase"),
		MdOwner:     rapid.SampledFrom([]string{"", "", "o1", "o2"}).Draw(t, "mdowner"),
		NoTimes:     rapid.Bool().Draw(t, "notimes"),
		Spec:        rapid.SliceOfN(rapid.Byte(), 0, 8).Draw(t, "spec"),
		Yaml:        rapid.SampledFrom([]string{"", "value: x\n", "{", "- a\n- b\n"}).Draw(t, "yaml"),
		HasID:       rapid.Bool().Draw(t, "hasid"),
		Tail:        rapid.SampledFrom([]int32{0, 0, 1, 3, -1, -2147483648, 2147483647, 1000000}).Draw(t, "tail"),
		HasBM:       rapid.IntRange(0, 2).Draw(t, "hasbm") == 0,
		Bookmark:    rapid.SliceOfN(rapid.Byte(), 0, 20).Draw(t, "bookmark"),
		BootCont:    rapid.IntRange(0, 3).Draw(t, "bootcont") == 0,
		BootBM:      rapid.IntRange(0, 3).Draw(t, "bootbm") == 0,
		Agg:         rapid.Bool().Draw(t, "agg"),
		APIVer:      rapid.SampledFrom([]int32{0, 1, 1, 2, -1}).Draw(t, "apiver"),
	}

	if rapid.IntRange(0, 2).Draw(t, "hasexp") == 0 {
		r.ExpPhase = ptr(rapid.SampledFrom([]string{"running", "tearingDown", "", "weird"}).Draw(t, "expphase"))
	}

	if rapid.IntRange(0, 2).Draw(t, "hasidre") == 0 {
		r.IDRegex = ptr(rapid.SampledFrom([]string{"", "^a$", "(", "[", "a{2,1}", "\\", ".*"}).Draw(t, "idre"))
	}

	r.Terms = rapid.SliceOfN(rapid.Custom(func(t *rapid.T) RTerm {
		return RTerm{
			Key:    rapid.SampledFrom([]string{"k1", "k2", ""}).Draw(t, "tkey"),
			Op:     rapid.SampledFrom([]int32{0, 1, 2, 3, 4, 5, 6, 7, 8, 99, -1}).Draw(t, "top"),
			Values: rapid.SliceOfN(rapid.SampledFrom([]string{"x", "", "5", "1Ki", "zz"}), 0, 2).Draw(t, "tvals"),
			Invert: rapid.Bool().Draw(t, "tinv"),
		}
	}), 0, 3).Draw(t, "terms")

	return r
}

// GenT draws a totality plan.
func GenT(t *rapid.T) TPlan {
	return TPlan{Reqs: rapid.SliceOfN(rapid.Custom(genReq), 1, 12).Draw(t, "reqs")}
}

func (r Req) resource() *v1alpha1.Resource {
	if r.NilResource {
		return nil
	}

	res := &v1alpha1.Resource{}

	if !r.NilMetadata {
		res.Metadata = &v1alpha1.Metadata{Namespace: r.NS, Type: r.Typ, Id: r.ID, Version: r.Version, Phase: r.Phase, Owner: r.MdOwner}
		if !r.NoTimes {
			res.Metadata.Created = timestamppb.New(time.Unix(1000, 0))
			res.Metadata.Updated = timestamppb.New(time.Unix(2000, 0))
		}
	}

	if !r.NilSpec {
		res.Spec = &v1alpha1.Spec{ProtoSpec: r.Spec, YamlSpec: r.Yaml}
	}

	return res
}

func (r Req) labelQueries() []*v1alpha1.LabelQuery {
	if len(r.Terms) == 0 {
		return nil
	}

	q := &v1alpha1.LabelQuery{}
	for _, t := range r.Terms {
		q.Terms = append(q.Terms, &v1alpha1.LabelTerm{Key: t.Key, Op: v1alpha1.LabelTerm_Operation(t.Op), Value: t.Values, Invert: t.Invert})
	}

	return []*v1alpha1.LabelQuery{q}
}

func (r Req) idQuery() *v1alpha1.IDQuery {
	if r.IDRegex == nil {
		return nil
	}

	return &v1alpha1.IDQuery{Regexp: *r.IDRegex}
}

// send issues the request on the client and returns the error (nil on success).
func (r Req) send(ctx context.Context, cl v1alpha1.StateClient) error {
	ctx, cancel := context.WithTimeout(ctx, 2*time.Second)
	defer cancel()

	switch r.K {
	case "get":
		req := &v1alpha1.GetRequest{Namespace: r.NS, Type: r.Typ, Id: r.ID}
		if !r.NilOptions {
			req.Options = &v1alpha1.GetOptions{}
		}

		_, err := cl.Get(ctx, req)

		return err
	case "list":
		req := &v1alpha1.ListRequest{Namespace: r.NS, Type: r.Typ}
		if !r.NilOptions {
			req.Options = &v1alpha1.ListOptions{LabelQuery: r.labelQueries(), IdQuery: r.idQuery()}
		}

		st, err := cl.List(ctx, req)
		if err != nil {
			return err
		}

		for {
			if _, err := st.Recv(); err != nil {
				if err.Error() == "EOF" {
					return nil
				}

				return err
			}
		}
	case "create":
		req := &v1alpha1.CreateRequest{Resource: r.resource()}
		if !r.NilOptions {
			req.Options = &v1alpha1.CreateOptions{Owner: r.Owner}
		}

		_, err := cl.Create(ctx, req)

		return err
	case "update":
		req := &v1alpha1.UpdateRequest{NewResource: r.resource()}
		if !r.NilOptions {
			req.Options = &v1alpha1.UpdateOptions{Owner: r.Owner, ExpectedPhase: r.ExpPhase}
		}

		_, err := cl.Update(ctx, req)

		return err
	case "destroy":
		req := &v1alpha1.DestroyRequest{Namespace: r.NS, Type: r.Typ, Id: r.ID}
		if !r.NilOptions {
			req.Options = &v1alpha1.DestroyOptions{Owner: r.Owner}
		}

		_, err := cl.Destroy(ctx, req)

		return err
	case "teardown":
		req := &v1alpha1.TeardownRequest{Namespace: r.NS, Type: r.Typ, Id: r.ID}
		if !r.NilOptions {
			req.Options = &v1alpha1.TeardownOptions{Owner: r.Owner}
		}

		_, err := cl.Teardown(ctx, req)

		return err
	case "tad":
		req := &v1alpha1.TeardownAndDestroyRequest{Namespace: r.NS, Type: r.Typ, Id: r.ID}
		if !r.NilOptions {
			req.Options = &v1alpha1.TeardownAndDestroyOptions{Owner: r.Owner}
		}

		_, err := cl.TeardownAndDestroy(ctx, req)

		return err
	case "watch":
		req := &v1alpha1.WatchRequest{Namespace: r.NS, Type: r.Typ, ApiVersion: r.APIVer}
		if r.HasID {
			req.Id = ptr(r.ID)
		}

		if !r.NilOptions {
			req.Options = &v1alpha1.WatchOptions{
				BootstrapContents: r.BootCont, TailEvents: r.Tail, LabelQuery: r.labelQueries(), IdQuery: r.idQuery(),
				Aggregated: r.Agg, BootstrapBookmark: r.BootBM,
			}

			if r.HasBM {
				req.Options.StartFromBookmark = r.Bookmark
			}
		}

		st, err := cl.Watch(ctx, req)
		if err != nil {
			return err
		}

		// read what is immediately available (ready marker, bootstrap), then hang up
		for i := 0; i < 4; i++ {
			if _, err := st.Recv(); err != nil {
				return err
			}
		}

		return nil
	}

	return nil
}

// RunT executes the totality plan in a bubble against a real server over an in-memory connection.
func RunT(p TPlan) (v hk.Verdict) {
	synctest.Test(hk.T(), func(*testing.T) { v = runT(p) })

	return v
}

func runT(p TPlan) (v hk.Verdict) {
	ctx, cancel := context.WithCancel(context.Background())
	core := sim.NewNamespaced()

	// some content, including a resource with a finalizer (so that TeardownAndDestroy would block)
	_ = core.Create(ctx, hres.New("n1", "TA", "a", "x"))
	held := hres.New("n1", "TA", "held", "y")
	held.Metadata().Finalizers().Add("f1")
	_ = core.Create(ctx, held)

	pair, err := sim.NewGRPCPair(server.NewState(core), nil)
	if err != nil {
		cancel()
		v.Failf("harness: %v", err)

		return v
	}

	defer func() {
		cancel()
		pair.Close()
		synctest.Wait()
	}()

	rejected := 0

	for i, r := range p.Reqs {
		err := r.send(ctx, pair.Client)
		if err != nil {
			if _, ok := status.FromError(err); !ok && err.Error() != "EOF" {
				v.Failf("request %d %+v: error is not a gRPC status: %v", i, r, err)

				return v
			}

			rejected++
		}

		// the server must still answer on the same connection
		gctx, gcancel := context.WithTimeout(ctx, 5*time.Second)
		_, gerr := pair.Adapter.Get(gctx, resource.NewMetadata("n1", "TA", "a", resource.VersionUndefined))

		gcancel()

		if gerr != nil && !state.IsNotFoundError(gerr) {
			v.Failf("after request %d %+v (result %v) the server no longer answers a Get: %v", i, r, err, gerr)

			return v
		}
	}

	if rejected > 0 {
		v.NonTrivial = true

		v.Label("handler-rejected-request")
	}

	v.Outcome = fmt.Sprintf("%d requests, %d rejected", len(p.Reqs), rejected)

	return v
}

package c11

import (
	"testing"

	"verifharness/hk"
)

func TestMain(m *testing.M) { hk.Main(m, "C11") }

func TestDifferential(t *testing.T) {
	hk.RunSub(t, hk.Sub[Plan]{Name: "diff/direct-vs-remote", Quick: 1600, Thorough: 5000, Gen: GenDiff, Run: RunDiff, Journal: true})
}

func TestTotality(t *testing.T) {
	hk.RunSub(t, hk.Sub[TPlan]{Name: "totality/wire-requests", Quick: 1500, Thorough: 15000, Gen: GenT, Run: RunT, Journal: true})
}

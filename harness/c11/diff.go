// Package c11 checks C11: gRPC transparency (remote state == wrapped state) and server totality.
package c11

import (
	"context"
	"fmt"
	"regexp"
	"strconv"
	"strings"
	"sync"
	"testing"
	"testing/synctest"

	"google.golang.org/grpc"
	"google.golang.org/grpc/codes"
	"google.golang.org/grpc/status"
	"pgregory.net/rapid"

	"github.com/cosi-project/runtime/api/v1alpha1"
	"github.com/cosi-project/runtime/pkg/resource"
	"github.com/cosi-project/runtime/pkg/state"
	"github.com/cosi-project/runtime/pkg/state/protobuf/server"

	"verifharness/hk"
	"verifharness/hres"
	"verifharness/model"
	"verifharness/sim"
)

// Op is one step of the differential plan.
type Op struct {
	K     string `json:"k"` // create update destroy get list uwc modify teardown tad addfin remfin watch
	ID    int    `json:"id"`
	Typ   int    `json:"typ"`
	Owner int    `json:"owner"` // 0..2 literal, 3 = stored owner
	Phase int    `json:"phase"` // expected phase option 0 default 1 any 2 running 3 tearingDown
	Stale bool   `json:"stale"` // update from an older read
	Fin   int    `json:"fin"`
	Sel   int    `json:"sel"`   // list / watch selector index
	WKind int    `json:"wkind"` // watch: 0 single 1 kind 2 aggregated
	WOpt  int    `json:"wopt"`  // watch: 0 plain 1 bootstrap contents 2 bootstrap bookmark 3 tail
	// Skip (get, list, watch): the call carries the skip-protobuf-unmarshal option (a state accessed directly
	// ignores it; over gRPC resources then arrive undecoded - same metadata, same spec contents)
	Skip  bool   `json:"skip,omitempty"`
	Val   string `json:"val"`
	SetPh int    `json:"setph"` // update: -1 keep phase, 0/1 set
}

// Plan is a differential plan.
type Plan struct {
	NoNative bool `json:"nonative"` // server without Teardown / TeardownAndDestroy RPCs
	Ops      []Op `json:"ops"`
}

var (
	dTyps = []string{"TA", "TB"}
	dIDs  = []string{"a", "b", "c", ""} // the empty string is a legal resource id
	sels  = [][]state.ListOption{
		nil,
		{state.WithLabelQuery(resource.LabelExists("k1"))},
		{state.WithLabelQuery(resource.LabelEqual("k1", "x", resource.NotMatches))},
		{state.WithIDQuery(resource.IDRegexpMatch(regexp.MustCompile("^[ab]$")))},
		{state.WithLabelQuery(resource.LabelLTNumeric("k2", "1Ki")), state.WithLabelQuery(resource.LabelIn("k1", []string{"x", "y"}))},
		{state.WithLabelQuery(resource.LabelLTE("k1", "x", resource.NotMatches), resource.LabelLT("k2", "2", resource.NotMatches))},
		{state.WithLabelQuery(resource.LabelLTENumeric("k2", "1500", resource.NotMatches))},
		// a query without terms matches everything, also as one alternative among several queries
		{state.WithLabelQuery()},
		{state.WithLabelQuery(resource.LabelEqual("k1", "y")), state.WithLabelQuery()},
		// inverted terms of every operator
		{state.WithLabelQuery(resource.LabelExists("k1", resource.NotMatches))},
		{state.WithLabelQuery(resource.LabelExists("k2", resource.NotMatches), resource.LabelEqual("k1", "x"))},
		{state.WithLabelQuery(resource.LabelIn("k1", []string{"x", "2k"}, resource.NotMatches))},
		{state.WithLabelQuery(resource.LabelLTNumeric("k2", "1500", resource.NotMatches))},
	}
	wsels = [][]state.WatchKindOption{
		nil,
		{state.WatchWithLabelQuery(resource.LabelExists("k1"))},
		{state.WatchWithLabelQuery(resource.LabelEqual("k1", "x", resource.NotMatches))},
		{state.WatchWithIDQuery(resource.IDRegexpMatch(regexp.MustCompile("^[ab]$")))},
		{state.WatchWithLabelQuery(resource.LabelLTNumeric("k2", "1Ki")), state.WatchWithLabelQuery(resource.LabelIn("k1", []string{"x", "y"}))},
		{state.WatchWithLabelQuery(resource.LabelLTE("k1", "x", resource.NotMatches), resource.LabelLT("k2", "2", resource.NotMatches))},
		{state.WatchWithLabelQuery(resource.LabelLTENumeric("k2", "1500", resource.NotMatches))},
		{state.WatchWithLabelQuery()},
		{state.WatchWithLabelQuery(resource.LabelEqual("k1", "y")), state.WatchWithLabelQuery()},
		{state.WatchWithLabelQuery(resource.LabelExists("k1", resource.NotMatches))},
		{state.WatchWithLabelQuery(resource.LabelExists("k2", resource.NotMatches), resource.LabelEqual("k1", "x"))},
		{state.WatchWithLabelQuery(resource.LabelIn("k1", []string{"x", "2k"}, resource.NotMatches))},
		{state.WatchWithLabelQuery(resource.LabelLTNumeric("k2", "1500", resource.NotMatches))},
	}
)

// GenDiff draws a differential plan.
func GenDiff(t *rapid.T) Plan {
	p := Plan{NoNative: rapid.IntRange(0, 2).Draw(t, "nonative") == 0}

	p.Ops = rapid.SliceOfN(rapid.Custom(func(t *rapid.T) Op {
		return Op{
			K: rapid.SampledFrom([]string{"create", "create", "update", "update", "destroy", "get", "list", "list", "uwc", "modify", "modify",
				"teardown", "teardown", "tad", "addfin", "remfin", "watch", "watch"}).Draw(t, "k"),
			ID:    rapid.SampledFrom([]int{0, 0, 0, 1, 1, 2, 2, 3}).Draw(t, "id"),
			Typ:   rapid.SampledFrom([]int{0, 0, 0, 1}).Draw(t, "typ"),
			Owner: rapid.SampledFrom([]int{3, 3, 3, 0, 1, 2}).Draw(t, "owner"),
			Phase: rapid.SampledFrom([]int{0, 0, 1, 2, 3}).Draw(t, "phase"),
			Stale: rapid.IntRange(0, 4).Draw(t, "stale") == 0,
			Fin:   rapid.IntRange(0, 1).Draw(t, "fin"),
			Sel:   rapid.IntRange(0, len(sels)-1).Draw(t, "sel"),
			WKind: rapid.IntRange(0, 2).Draw(t, "wkind"),
			WOpt:  rapid.IntRange(0, 3).Draw(t, "wopt"),
			Skip:  rapid.IntRange(0, 3).Draw(t, "skip") == 0,
			Val:   rapid.SampledFrom([]string{"x", "y", "1000", "2k"}).Draw(t, "val"),
			SetPh: rapid.SampledFrom([]int{-1, -1, -1, 0, 1}).Draw(t, "setph"),
		}
	}), 6, 40).Draw(t, "ops")

	// two watches are always started early so that event sequences get compared on every plan
	for i := 0; i < 2; i++ {
		p.Ops = append([]Op{{K: "watch", ID: i, Sel: rapid.IntRange(0, len(sels)-1).Draw(t, "wsel"), WKind: rapid.IntRange(0, 2).Draw(t, "wk"), WOpt: rapid.IntRange(0, 2).Draw(t, "wo"),
			Skip: rapid.IntRange(0, 3).Draw(t, "wskip") == 0}}, p.Ops...)
	}

	return p
}

// noNativeServer answers Unimplemented for the Teardown RPCs.
type noNativeServer struct {
	*server.State
}

func (noNativeServer) Teardown(context.Context, *v1alpha1.TeardownRequest) (*v1alpha1.TeardownResponse, error) {
	return nil, status.Error(codes.Unimplemented, "method Teardown not implemented")
}

func (noNativeServer) TeardownAndDestroy(context.Context, *v1alpha1.TeardownAndDestroyRequest) (*v1alpha1.TeardownAndDestroyResponse, error) {
	return nil, status.Error(codes.Unimplemented, "method TeardownAndDestroy not implemented")
}

type side struct {
	name string
	st   state.State
	core state.CoreState
	last map[model.Key][]resource.Resource // objects returned, for stale updates
	ws   []*wrec
}

type wrec struct {
	mu  sync.Mutex
	evs []state.Event
	err error
}

func (w *wrec) snapshot() []state.Event {
	w.mu.Lock()
	defer w.mu.Unlock()

	return append([]state.Event(nil), w.evs...)
}

type result struct {
	err   error
	res   resource.Resource
	list  []resource.Resource
	obj   resource.Resource // caller's object after the call (write-back)
	ready bool
}

func predVector(err error) string {
	return fmt.Sprintf("nil=%v nf=%v c=%v oc=%v pc=%v un=%v bm=%v", err == nil, state.IsNotFoundError(err), state.IsConflictError(err),
		state.IsOwnerConflictError(err), state.IsPhaseConflictError(err), state.IsUnsupportedError(err), state.IsInvalidWatchBookmarkError(err))
}

func ownerOf(s *side, k model.Key, op Op) string {
	if op.Owner < 3 {
		return hres.Owners[op.Owner]
	}

	if r, err := s.core.Get(context.Background(), resource.NewMetadata(k.NS, k.Typ, k.ID, resource.VersionUndefined)); err == nil {
		return r.Metadata().Owner()
	}

	return ""
}

func phaseOpts(op Op) []state.UpdateOption {
	switch op.Phase {
	case 1:
		return []state.UpdateOption{state.WithExpectedPhaseAny()}
	case 2:
		return []state.UpdateOption{state.WithExpectedPhase(resource.PhaseRunning)}
	case 3:
		return []state.UpdateOption{state.WithExpectedPhase(resource.PhaseTearingDown)}
	}

	return nil
}

func (s *side) apply(ctx context.Context, op Op, n int) result {
	k := model.Key{NS: "n1", Typ: dTyps[op.Typ], ID: dIDs[op.ID]}
	ptr := resource.NewMetadata(k.NS, k.Typ, k.ID, resource.VersionUndefined)
	owner := ownerOf(s, k, op)

	var r result

	switch op.K {
	case "create":
		obj := hres.New(k.NS, k.Typ, k.ID, "c"+strconv.Itoa(n))
		obj.Metadata().Labels().Set("k1", op.Val)

		if op.SetPh == 1 {
			obj.Metadata().Labels().Set("k2", op.Val)
		}

		r.err = s.st.Create(ctx, obj, state.WithCreateOwner(owner))
		r.obj = obj

		if r.err == nil {
			s.last[k] = append(s.last[k], obj.DeepCopy())
		}
	case "update":
		var obj resource.Resource

		if l := s.last[k]; len(l) > 0 {
			obj = l[len(l)-1].DeepCopy()
			if op.Stale {
				obj = l[0].DeepCopy()
			}
		} else {
			obj = hres.New(k.NS, k.Typ, k.ID, "")
		}

		obj.(*hres.R).SetValue("u" + strconv.Itoa(n)) //nolint:forcetypeassert
		obj.Metadata().Labels().Set("k2", op.Val)

		if op.SetPh >= 0 {
			obj.Metadata().SetPhase(resource.Phase(op.SetPh))
		}

		r.err = s.st.Update(ctx, obj, append(phaseOpts(op), state.WithUpdateOwner(owner))...)
		r.obj = obj

		if r.err == nil {
			s.last[k] = append(s.last[k], obj.DeepCopy())
		}
	case "destroy":
		r.err = s.st.Destroy(ctx, ptr, state.WithDestroyOwner(owner))
	case "get":
		if op.Skip {
			r.res, r.err = s.st.Get(ctx, ptr, state.WithGetUnmarshalOptions(state.WithSkipProtobufUnmarshal()))

			break
		}

		r.res, r.err = s.st.Get(ctx, ptr)
		if r.err == nil {
			s.last[k] = append(s.last[k], r.res.DeepCopy())
		}
	case "list":
		lopts := append([]state.ListOption(nil), sels[op.Sel]...)
		if op.Skip {
			lopts = append(lopts, state.WithListUnmarshalOptions(state.WithSkipProtobufUnmarshal()))
		}

		l, err := s.st.List(ctx, ptr, lopts...)
		r.err, r.list = err, l.Items
	case "uwc":
		r.res, r.err = s.st.UpdateWithConflicts(ctx, ptr, func(x resource.Resource) error {
			x.Metadata().Labels().Set("k1", op.Val)

			return nil
		}, append(phaseOpts(op), state.WithUpdateOwner(owner))...)
	case "modify":
		r.res, r.err = s.st.ModifyWithResult(ctx, hres.New(k.NS, k.Typ, k.ID, "m"+strconv.Itoa(n)), func(x resource.Resource) error {
			x.Metadata().Labels().Set("k2", op.Val)

			return nil
		}, append(phaseOpts(op), state.WithUpdateOwner(owner))...)
	case "teardown":
		r.ready, r.err = s.st.Teardown(ctx, ptr, state.WithTeardownOwner(owner))
	case "tad":
		// only when it cannot block: absent or without finalizers
		if g, err := s.core.Get(ctx, ptr); err == nil && !g.Metadata().Finalizers().Empty() {
			return r
		}

		r.err = s.st.TeardownAndDestroy(ctx, ptr, state.WithTeardownAndDestroyOwner(owner))
	case "addfin":
		r.err = s.st.AddFinalizer(ctx, ptr, hres.Finalizers[op.Fin])
	case "remfin":
		r.err = s.st.RemoveFinalizer(ctx, ptr, hres.Finalizers[op.Fin])
	case "watch":
		w := &wrec{}
		s.ws = append(s.ws, w)

		collect := func(e ...state.Event) {
			w.mu.Lock()
			w.evs = append(w.evs, e...)
			w.mu.Unlock()
		}

		kopts := append([]state.WatchKindOption(nil), wsels[op.Sel]...)
		if op.Skip {
			kopts = append(kopts, state.WithWatchKindUnmarshalOptions(state.WithSkipProtobufUnmarshal()))
		}

		switch op.WOpt {
		case 1:
			kopts = append(kopts, state.WithBootstrapContents(true))
		case 2:
			kopts = append(kopts, state.WithBootstrapBookmark(true))
		case 3:
			kopts = append(kopts, state.WithKindTailEvents(2+op.Fin))
		}

		switch op.WKind {
		case 0:
			ch := make(chan state.Event)

			var wo []state.WatchOption
			if op.WOpt == 3 {
				wo = append(wo, state.WithTailEvents(2+op.Fin))
			}

			if op.Skip {
				wo = append(wo, state.WithWatchUnmarshalOptions(state.WithSkipProtobufUnmarshal()))
			}

			w.err = s.st.Watch(ctx, ptr, ch, wo...)
			if w.err == nil {
				go func() {
					for {
						select {
						case <-ctx.Done():
							return
						case e := <-ch:
							collect(e)
						}
					}
				}()
			}
		case 1:
			ch := make(chan state.Event)

			w.err = s.st.WatchKind(ctx, ptr, ch, kopts...)
			if w.err == nil {
				go func() {
					for {
						select {
						case <-ctx.Done():
							return
						case e := <-ch:
							collect(e)
						}
					}
				}()
			}
		case 2:
			ch := make(chan []state.Event)

			w.err = s.st.WatchKindAggregated(ctx, ptr, ch, kopts...)
			if w.err == nil {
				go func() {
					for {
						select {
						case <-ctx.Done():
							return
						case e := <-ch:
							collect(e...)
						}
					}
				}()
			}
		}

		r.err = w.err
	}

	return r
}

func resDesc(r resource.Resource) string {
	if r == nil {
		return "<nil>"
	}

	return hres.Describe(r) + fmt.Sprintf(" created=%d updated=%d", r.Metadata().Created().UnixNano(), r.Metadata().Updated().UnixNano())
}

func evDesc(e state.Event) string {
	s := e.Type.String()

	if e.Resource != nil {
		d := hres.Describe(e.Resource)

		// a tombstone has no spec; over the wire it arrives as a resource with an empty spec: compare metadata only
		if resource.IsTombstone(e.Resource) || e.Type == state.Bootstrapped || e.Type == state.Noop || (e.Type == state.Destroyed && len(e.Bookmark) == 0) {
			if i := strings.LastIndex(d, " val="); i >= 0 {
				d = d[:i]
			}
		}

		s += "(" + d + ")"
	}

	if e.Old != nil {
		s += " old=(" + hres.Describe(e.Old) + ")"
	}

	if e.Error != nil {
		s += " err"
	}

	s += fmt.Sprintf(" bookmark=%v", len(e.Bookmark) > 0)

	return s
}

// RunDiff executes the differential plan.
func RunDiff(p Plan) (v hk.Verdict) {
	synctest.Test(hk.T(), func(*testing.T) { v = runDiff(p) })

	return v
}

//nolint:gocyclo,gocognit,cyclop
func runDiff(p Plan) (v hk.Verdict) {
	ctx, cancel := context.WithCancel(context.Background())

	core1 := sim.NewNamespaced()
	core2 := sim.NewNamespaced()

	var srv v1alpha1.StateServer = server.NewState(core2)
	if p.NoNative {
		srv = noNativeServer{server.NewState(core2)}
	}

	attempts := map[string]int{}

	var amu sync.Mutex

	pair, err := sim.NewGRPCPair(srv, []grpc.DialOption{grpc.WithUnaryInterceptor(
		func(ctx context.Context, method string, req, reply any, cc *grpc.ClientConn, invoker grpc.UnaryInvoker, opts ...grpc.CallOption) error {
			amu.Lock()
			attempts[method]++
			amu.Unlock()

			return invoker(ctx, method, req, reply, cc, opts...)
		})})
	if err != nil {
		cancel()
		v.Failf("harness: %v", err)

		return v
	}

	defer func() {
		cancel()
		pair.Close()
		synctest.Wait()
	}()

	direct := &side{name: "direct", st: state.WrapCore(core1), core: core1, last: map[model.Key][]resource.Resource{}}
	remote := &side{name: "remote", st: state.WrapCore(pair.Adapter), core: core2, last: map[model.Key][]resource.Resource{}}

	conflictClass := 0

	for i, op := range p.Ops {
		a := direct.apply(ctx, op, i)
		b := remote.apply(ctx, op, i)
		what := fmt.Sprintf("step %d %+v", i, op)

		if pa, pb := predVector(a.err), predVector(b.err); pa != pb {
			v.Failf("%s: error classes differ: direct %v [%s], remote %v [%s]", what, a.err, pa, b.err, pb)

			return v
		}

		if a.err != nil && (state.IsConflictError(a.err) || state.IsPhaseConflictError(a.err)) {
			conflictClass++
		}

		// (an undecoded resource is another Go type than the decoded one: compare what it says)
		if (a.res == nil) != (b.res == nil) || (a.res != nil && !op.Skip && !resource.Equal(a.res, b.res)) || (a.res != nil && op.Skip && resDesc(a.res) != resDesc(b.res)) {
			v.Failf("%s: returned resources differ: direct %s, remote %s", what, resDesc(a.res), resDesc(b.res))

			return v
		}

		if a.ready != b.ready {
			v.Failf("%s: Teardown ready flag differs: direct %v remote %v", what, a.ready, b.ready)

			return v
		}

		if a.obj != nil && a.err == nil {
			ma, mb := a.obj.Metadata(), b.obj.Metadata()
			if !ma.Version().Equal(mb.Version()) || ma.Owner() != mb.Owner() || !ma.Updated().Equal(mb.Updated()) {
				v.Failf("%s: write-back into the caller's object differs: direct %s, remote %s", what, resDesc(a.obj), resDesc(b.obj))

				return v
			}
		}

		if len(a.list) != len(b.list) {
			v.Failf("%s: lists differ: direct %d items, remote %d items", what, len(a.list), len(b.list))

			return v
		}

		for j := range a.list {
			if (!op.Skip && !resource.Equal(a.list[j], b.list[j])) || (op.Skip && resDesc(a.list[j]) != resDesc(b.list[j])) {
				v.Failf("%s: list item %d differs: direct %s, remote %s", what, j, resDesc(a.list[j]), resDesc(b.list[j]))

				return v
			}
		}

		// stores agree after every step
		for _, typ := range dTyps {
			l1, _ := core1.List(ctx, resource.NewMetadata("n1", typ, "", resource.VersionUndefined))
			l2, _ := core2.List(ctx, resource.NewMetadata("n1", typ, "", resource.VersionUndefined))

			if len(l1.Items) != len(l2.Items) {
				v.Failf("%s: backing states diverged: %d vs %d items of %s", what, len(l1.Items), len(l2.Items), typ)

				return v
			}

			for j := range l1.Items {
				if !resource.Equal(l1.Items[j], l2.Items[j]) {
					v.Failf("%s: backing states diverged on %s: %s vs %s", what, typ, resDesc(l1.Items[j]), resDesc(l2.Items[j]))

					return v
				}
			}
		}

		// watches
		synctest.Wait()

		for wi := range direct.ws {
			ea, eb := direct.ws[wi].snapshot(), remote.ws[wi].snapshot()
			if len(ea) != len(eb) {
				v.Failf("%s: watch %d delivered %d events directly, %d remotely: direct %v remote %v", what, wi, len(ea), len(eb), descAll(ea), descAll(eb))

				return v
			}

			for j := range ea {
				if evDesc(ea[j]) != evDesc(eb[j]) {
					v.Failf("%s: watch %d event %d differs: direct %s, remote %s", what, wi, j, evDesc(ea[j]), evDesc(eb[j]))

					return v
				}
			}

			if len(ea) >= 3 {
				v.NonTrivial = true

				v.Label("watch>=3-events")
			}
		}
	}

	if conflictClass > 0 {
		v.NonTrivial = true

		v.Label("conflict-class-error")
	}

	if p.NoNative {
		amu.Lock()
		for _, m := range []string{"/cosi.resource.State/Teardown", "/cosi.resource.State/TeardownAndDestroy"} {
			if attempts[m] > 1 {
				v.Failf("fallback flag is not sticky: %s was attempted %d times by one adapter", m, attempts[m])
			}

			if attempts[m] == 1 {
				v.Label("fallback-used")
			}
		}
		amu.Unlock()
	}

	v.Outcome = fmt.Sprintf("%d ops, %d conflict-class errors, nonative=%v", len(p.Ops), conflictClass, p.NoNative)

	return v
}

func descAll(e []state.Event) []string {
	out := make([]string, 0, len(e))
	for _, x := range e {
		out = append(out, evDesc(x))
	}

	return out
}
